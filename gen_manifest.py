#!/usr/bin/env python3
"""Regenerates MANIFEST.json from one table, so that it stays consistent."""
import json, subprocess

claimed = {
 "C04": dict(
   level="exploration",
   text="Seeded search over clock schedules: the simulated clock's jump/creep/stall position ranges over every clock read of New/solve/re-solve histories on generated problems; reference model R1 (timer accounting from label events) plus a frozen-clock reference execution decide when the solve must stop, what it may report, and that MaxTime has a cause. Sampling, not proof: the right level because the clock clause is a property of schedules that no real-clock test can reach and that has no finite enumeration.",
   design_ref="DESIGN.md §4 C04, §2.2",
   note="Trusted: the guarded hook lines emit timer events faithfully; simulated time advances only at clock reads; print-span time is not counted against the limit. R1 knows no timer by name. Input clauses (no panic, bad dimensions rejected, iterations <= max_iter) are asserted on every simulated run, including boundary shapes (m = 0, empty and singleton cones, duplicated rows, zero columns, 1e-8..1e8 scalings, huge finite limits), but the input space is only sampled. The simulated build has overflow checks and debug assertions on.",
   technique="deterministic simulation: seeded clock-fault schedules vs timer reference model"),
}

claimed["C03"] = dict(
   level="exploration",
   text="Seeded search over interruption points: every solve of a generated history is cut by the simulated clock (MaxTime at a chosen clock read) and/or by max_iter at a chosen iteration, and re-solved after the cut; the report (obj_val, obj_val_dual, r_prim, r_dual, iterations, Almost* justification, NaN objectives and certificate sign for infeasible statuses, vector lengths) is recomputed from the returned x,s,z and the user's data by independent arithmetic. Only the interrupted / clock-dependent paths are claimed; reports on uninterrupted runs are a pure function of the input.",
   design_ref="DESIGN.md §4 C03",
   note="Agreement to rounding = 2^-36 of the sum of absolute values of the terms; recomputation skipped for iterates beyond 1e50. Histories include accepted in-place updates and presolve-dropped rows. Almost*Infeasible tolerances are scale dependent and only checked for sign/NaN. Known finding F8 (non-finite figure for a finite point, thorough tier only) is keyed. Input space sampled.",
   technique="deterministic simulation: clock/iteration-budget cuts at every boundary + independent recomputation oracle")
claimed["C20"] = dict(
   level="exploration",
   text="The same seeded history is executed once per print target under a clock that is a pure function of the read index: buffer (reference), stream with seeded short writes and EINTR, file, sink, and a stream with a hard fault (EPIPE/ENOSPC/other/Ok(0)) at a chosen call. Decides: verbose off writes nothing anywhere; stream = file = buffer bytes exactly; after a hard sink error the accepted bytes are a prefix of the fault-free output; and the parsed log (iteration column, last row, footer status/time, header dimensions, cone lines, presolve line, settings) agrees with the returned solution and with a model of the internal problem, on paths incl. MaxTime/MaxIterations/Almost*.",
   design_ref="DESIGN.md §4 C20, §2.3",
   note="Known finding F5 (roll-back on insufficient progress prints the discarded iterate) is listed in known_findings.txt and keyed to that call site. Stdout is observed through a child process (fd 1 a pipe) for one run in 48. Histories also toggle settings.verbose, presolve_enable and equilibrate_enable between solves and switch / re-arm the print target between solves. The log parser is keyed on the parts the property names (problem block, settings keys, column names, footer) and ignores everything else.",
   technique="deterministic simulation: sink fault injection (short write, EINTR, hard error) with byte-exact reference output")

claimed["C08"] = dict(
   level="exploration",
   text="History check against reference model R2 (plain unscaled copies of P, q, A, b): seeded histories of update_P/q/A/b/update_data in every argument form, valid and invalid (wrong length, out-of-range index after valid entries, pattern mismatch, presolve active), interleaved with solves cut by max_iter or by the simulated clock. After every operation: return value, internal data vs an admissible model state, KKT copy and LDL-engine copy vs data (guarded accessor). After every solve: bitwise equality with a fresh solver on the model state (equilibration off), verdict class + weak-duality objective slack vs a fresh solver and vs 'original data + one update_data' (equilibration on), and the C03 report oracle for the model data.",
   design_ref="DESIGN.md §4 C08",
   note="With equilibration on, verdict disagreement is judged only when the updated problem keeps a planted strictly feasible primal-dual pair (verified independently); without one the verdict is not a stable function of the data in floating point. update_b does not cap at the infinity bound as construction does; solves after such an update are compared on verdict/objective only.",
   technique="deterministic simulation: operation histories with half-failed updates and interrupted solves vs reference model")

claimed["C09"] = dict(
   level="exploration",
   text="The infinity bound is modelled as a sequentially consistent register (reference model R3). Seeded histories: sequential set_infinity/default_infinity before, between and after New/solve/re-solve, and concurrent histories in which 1-2 setter threads store to the bound while 1-2 solver threads construct and solve, all as simulated threads under the baton scheduler with every accessor a yield point. Oracle: some single value the register held between invoke and return of New must explain everything at once - which rows were dropped, s = bound and z = 0 there, the internal right-hand side = min(b, bound), and the kept entries bitwise equal to a reference solver built from the problem with those rows deleted and b capped by hand - and later stores must not change later solves.",
   design_ref="DESIGN.md §4 C09, §2.5",
   note="Interleaving granularity is the seam calls. Index bookkeeping between reduced and full vectors is exercised by the same oracle but the input space is only sampled.",
   technique="deterministic simulation: seeded thread interleavings at the global's accessors vs register model + hand-reduced reference")

claimed["C05"] = dict(
   level="exploration",
   text="Seeded search over thread interleavings and solve histories. (a) 2-3 solver programs (New, solve, update, re-solve, cut by max_iter or by a per-thread simulated clock, some printing to faulty streams) run as simulated threads under the baton scheduler together with threads storing to the infinity bound; every solve result, update return value and printed byte must equal, bit for bit, the same program run alone. (b) the same solver solved twice, and solved after 1-2 interrupted solves, must equal an uninterrupted first solve bit for bit. (c) every run of every check is re-executed in another worker process (5% sample) and the event-log hashes compared. Only the schedule, re-solve and reproducibility clauses are claimed; the formulation-equivalence clauses (permutations, cone splitting, objective scaling, backend) are metamorphic relations between pure functions of the input and are not decided by this technique.",
   design_ref="DESIGN.md §4 C05, §2.5",
   note="Hidden shared state is observable only if it survives between two seam calls (clock reads, sink calls, infinity accessors); faer/rayon thread count is not simulated.",
   technique="deterministic simulation: baton-scheduled thread interleavings, bitwise comparison with solo execution")

claimed["C19"] = dict(
   level="fault_enumeration",
   text="The solver really saves to and loads from files while the simulator plays the disk and the descriptor table. Fault-free configuration: stored P (upper triangle), q, A, b (capped), cones equal the user's data (exactly with equilibration off, <= 64 ulp otherwise), settings identical incl. infinite time_limit, a settings argument overrides, and the loaded problem solves to the same result (bitwise with equilibration off). Fault configurations: every enumerated disk fault (lost write, truncation, bit flip, hostile-byte substitution, zeroed sector, duplicated tail, stale tail) and descriptor fault (/dev/full, read-only, write-only, directory, handle not rewound, pipe delivering 1-7 byte reads) must end in Err - or, for byte corruptions that leave a well-formed document, in Ok with a usable solver carrying exactly the stored value - and never in a panic or abort. Thorough tier enumerates every truncation offset and every bit of every byte of each generated file.",
   design_ref="DESIGN.md §4 C19, §2.4",
   note="EINTR on the JSON handles is not injected (concrete std::fs::File). When a corruption changes a settings value the loaded solver is constructed but not solved (arbitrary settings are covered by no property). The saved solver may have been solved, updated in place and had public settings edited before saving; a second-generation save of the loaded solver must not drift. Every public settings field is varied by the generator (incl. max_threads and the infeasibility / KT-ratio tolerances that gen_settings leaves alone) and compared through the Debug rendering of the whole struct. With equilibration on, a verdict disagreement is judged only when both verdicts are independently backed by the returned vectors.",
   technique="deterministic simulation: enumerated disk/descriptor fault injection between save and load")

na = {
 "C01": "validity of a Solved verdict is a pure function of (data, settings); no clock, I/O, schedule or fault participates, so a simulator has nothing to control",
 "C02": "validity of infeasibility certificates is a pure function of the input; the (tau,kappa) observer it needs is instrumentation, not a nondeterminism seam",
 "C06": "a distributional convergence claim over an input family; nothing to schedule or fault",
 "C07": "interior iterates and max_iter=k prefix equality are pure functions of (input, k); the budget is an argument, not a timer (the time-budget analogue is covered by C04/C05)",
 "C10": "equilibration is a deterministic map of the data computed once at construction",
 "C11": "KKT assembly is a deterministic map of (P, A, cones, scaling point)",
 "C12": "LDL factor/solve/refactor sequences are pure functions of their arguments; no operation can be interrupted, fail half-way or observe time",
 "C13": "Nesterov-Todd identities are pointwise mathematical identities of the input",
 "C14": "barrier calculus identities are pointwise mathematical identities of the input",
 "C15": "step-length safety/tightness is a pointwise property of (cone, point, direction)",
 "C16": "sparse-matrix algebra: pure functions",
 "C17": "chordal analysis is a pure function of the sparsity pattern (its HashMaps are only looked up by key, never iterated) and needs the sdp feature, for which no BLAS/LAPACK is installed",
 "C18": "chordal decomposition/reversal is a pure function of the data and needs the sdp feature (no BLAS/LAPACK installed)",
}
pending = {k: "simulation applies (DESIGN.md §4) but the check is not built yet; not claimed until it is" for k in ["C03","C05","C08","C09","C19","C20"] if k not in claimed}

def main():
    hooks = subprocess.run(["git","-C","/repo","log","--format=%h %s"],capture_output=True,text=True).stdout.splitlines()
    hook_commits = [l.split()[0] for l in hooks if l.split(" ",1)[1].startswith("verif hook")]
    checks = []
    for pid, c in sorted(claimed.items()):
        checks.append({
            "property_id": pid,
            "quick_cmd": f"./check {pid} quick",
            "thorough_cmd": f"./check {pid} thorough",
            "evidence_file": f"/verif/evidence/{pid}.json",
            "replay_cmd_template": "/verif/target/release/sim replay {path} --log",
            "engine": "sim",
            "level_claimed": {"category": c["level"], "text": c["text"], "design_ref": c["design_ref"]},
            "level_note": c["note"],
            "technique": c["technique"],
        })
    m = {
        "version": 1,
        "setup_cmd": "cd /verif/sim && CARGO_NET_OFFLINE=true cargo build --release --offline",
        "hooks": {
            "guard": "--cfg clarabel_verif",
            "enable": "RUSTFLAGS='--cfg clarabel_verif' (set in /verif/sim/.cargo/config.toml); the sim crate depends on clarabel by path = /repo",
            "baseline_off_cmd": "cd /repo && cargo test --workspace --no-fail-fast --offline",
            "source_commits": hook_commits,
            "add_only": True,
        },
        "engines": [{
            "name": "sim",
            "path": "/verif/sim",
            "serves_properties": sorted(claimed.keys()),
            "kind_free_text": "hand-written deterministic simulator: one seeded choice stream drives workload, simulated clock, sink/disk faults and the baton thread schedule; delta-debug shrinking; replay files",
        }],
        "checks": checks,
        "not_applicable": [{"property_id": k, "reason": v} for k, v in sorted({**na, **pending}.items())],
        "notes": "Technique family: deterministic simulation with fault injection. See DESIGN.md. known_findings.txt lists repaired defects (fixed:) and recorded findings (finding:).",
    }
    json.dump(m, open("/verif/MANIFEST.json","w"), indent=1)
    print("claimed", sorted(claimed), "na", len(m["not_applicable"]))

main()
