#!/bin/bash
# usage: tools/try_mutation.sh <patch.diff> [PROP ...]
# Applies a seeded change to /repo's working tree, runs the given checks (default: all
# claimed) in the quick tier, reports which raise a VIOLATION, and restores /repo.
set -u
PATCH="$(readlink -f "$1")"; shift
PROPS="${*:-C03 C04 C05 C08 C09 C19 C20}"
ROOT="$(cd "$(dirname "$0")/.." && pwd)"
# inside `vp run --with-repo` the snapshot of /repo is used (sim/Cargo.toml must point at it)
REPO="${VP_RUN_REPO:-/repo}"
if [ "$REPO" = /repo ] && [ -n "$(git -C /repo status --porcelain --untracked-files=no)" ]; then echo "/repo not clean"; exit 2; fi
(cd "$REPO" && git apply "$PATCH") || { echo "patch does not apply"; exit 2; }
trap 'cd "$REPO" && git apply -R "$PATCH"' EXIT
for p in $PROPS; do
  out=$("$ROOT/check" "$p" quick 2>&1); rc=$?
  nv=$(echo "$out" | grep -c '^VIOLATION')
  cls=$(echo "$out" | grep -E '^  class=' | sed -E 's/^  class=([A-Za-z0-9_.]+).*/\1/' | sort -u | tr '\n' ' ')
  echo "$p exit=$rc violations=$nv classes: $cls"
done
