#!/bin/bash
# usage: tools/try_mutation.sh <patch.diff> [PROP ...]
# Applies a seeded change to /repo's working tree, runs the given checks (default: all
# claimed) in the quick tier, reports which raise a VIOLATION, and restores /repo.
set -u
PATCH="$(readlink -f "$1")"; shift
PROPS="${*:-C03 C04 C05 C08 C09 C19 C20}"
ROOT="$(cd "$(dirname "$0")/.." && pwd)"
if [ -n "$(git -C /repo status --porcelain --untracked-files=no)" ]; then echo "/repo not clean"; exit 2; fi
git -C /repo apply "$PATCH" || { echo "patch does not apply"; exit 2; }
trap 'git -C /repo checkout -- . ' EXIT
for p in $PROPS; do
  out=$("$ROOT/check" "$p" quick 2>&1); rc=$?
  nv=$(echo "$out" | grep -c '^VIOLATION')
  cls=$(echo "$out" | grep -E '^  class=' | sed -E 's/^  class=([A-Za-z0-9_.]+).*/\1/' | sort -u | tr '\n' ' ')
  echo "$p exit=$rc violations=$nv classes: $cls"
done
