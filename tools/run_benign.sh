#!/bin/bash
# Re-runs every property-preserving change under /verif/seeded/benign_* against all seven
# checks (quick tier); every line must end "silent".  /repo is restored after each.
cd "$(dirname "$0")/.." || exit 2
for d in seeded/benign_*/; do
  id=$(basename "$d")
  res=$(tools/try_mutation.sh "$d/patch.diff" 2>&1 | grep -E "exit=[12]" | tr '\n' ';')
  echo "$id -> ${res:-silent}"
done
