#!/bin/bash
# Re-runs every property-preserving change under /verif/seeded/benign_* against all seven
# checks (quick tier); every line must end "silent".  /repo is restored after each.
cd "$(dirname "$0")/.." || exit 2
for d in seeded/benign_*/; do
  id=$(basename "$d")
  out=$(tools/try_mutation.sh "$d/patch.diff" 2>&1)
  if echo "$out" | grep -q "patch does not apply"; then echo "$id -> PATCH DOES NOT APPLY"; continue; fi
  n=$(echo "$out" | grep -c "exit=")
  res=$(echo "$out" | grep -E "exit=[12]" | tr '\n' ';')
  if [ "$n" -ne 7 ]; then echo "$id -> INCOMPLETE ($n of 7 checks ran) $res"; continue; fi
  echo "$id -> ${res:-silent}"
done
