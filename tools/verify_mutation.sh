#!/bin/bash
# usage: tools/verify_mutation.sh <dir with patch.diff and demo.rs> <name>
# Independent confirmation of a seeded change in a clean scratch worktree of /repo (no git stash:
# the stash is shared between worktrees): it applies, builds, the existing suite still passes,
# the demonstration fails with the change and passes without it.
set -u
D="$(readlink -f "$1")"; NAME="$2"; W=/tmp/ver_wt
export CARGO_TARGET_DIR=/tmp/ver_target CARGO_NET_OFFLINE=true
if [ ! -d $W ]; then git -C /repo worktree add -q --detach $W HEAD || exit 2; fi
cd $W || exit 2
git checkout -q --detach "$(git -C /repo rev-parse HEAD)" && git checkout -q -- . && git clean -fdq tests
git apply "$D/patch.diff" || { echo "RESULT $NAME: patch does not apply"; exit 1; }
cp "$D/demo.rs" tests/demo_$NAME.rs
files=$(git diff --stat | tail -1)
suite=$(cargo test --workspace --no-fail-fast --offline 2>&1)
if echo "$suite" | grep -qE "could not compile|^error\[E"; then echo "RESULT $NAME: does not compile"; echo "$suite" | grep -E "^error" -A5 | head -20; git checkout -q -- .; rm -f tests/demo_$NAME.rs; exit 1; fi
with_all=$(echo "$suite" | grep -E "^test result" | awk '{p+=$4; f+=$6} END {print p "/" f}')
demo_with=$(cargo test --offline --test demo_$NAME 2>&1 | grep -E "^test result" | tail -1 | sed -E 's/.*(ok|FAILED)\. ([0-9]+) passed; ([0-9]+) failed.*/\2 passed \3 failed/')
git apply -R "$D/patch.diff"
demo_without=$(cargo test --offline --test demo_$NAME 2>&1 | grep -E "^test result" | tail -1 | sed -E 's/.*(ok|FAILED)\. ([0-9]+) passed; ([0-9]+) failed.*/\2 passed \3 failed/')
rm -f tests/demo_$NAME.rs
echo "RESULT $NAME: [$files] all targets with change passed/failed=$with_all ; demo with change: $demo_with ; demo without: $demo_without"
