#!/bin/bash
# Re-runs every seeded change under /verif/seeded against the checks recorded as catching it
# (quick tier) and prints the catch matrix.  /repo is restored after each.
cd "$(dirname "$0")/.." || exit 2
for d in seeded/mut_*/ seeded/fix_*/; do
  id=$(basename "$d")
  # the checks expected to catch it: the property it breaks, or (mut_46, mut_75) the other
  # properties' checks recorded under caught_by
  prop=$(python3 -c "
import json
m=json.load(open('$d/meta.json'))
cb=m.get('caught_by',{})
ks=[k for k,v in cb.items() if v and not str(v[0]).startswith('not caught')] if isinstance(cb,dict) else []
print(' '.join(ks) if ks else m['breaks_property'])")
  out=$(tools/try_mutation.sh "$d/patch.diff" $prop 2>&1)
  if echo "$out" | grep -q "patch does not apply"; then echo "$id -> PATCH DOES NOT APPLY"; continue; fi
  res=$(echo "$out" | grep -E "exit=" | tr '\n' ';')
  case "$res" in *exit=1*) verdict=CAUGHT;; *) verdict=MISSED;; esac
  echo "$id -> $verdict $res"
done
