#!/bin/bash
# Re-runs every seeded change under /verif/seeded against the check of the property it
# breaks (quick tier) and prints the catch matrix.  /repo is restored after each.
cd "$(dirname "$0")/.." || exit 2
for d in seeded/mut_*/ seeded/fix_*/; do
  id=$(basename "$d")
  prop=$(python3 -c "import json;print(json.load(open('$d/meta.json'))['breaks_property'])")
  res=$(tools/try_mutation.sh "$d/patch.diff" $prop 2>&1 | tail -1)
  echo "$id -> $res"
done
