//! Shared harness pieces: wrapped API calls (logged, panic-caught),
//! solution snapshots, violations and run outcomes.

use crate::gen::Prob;
use crate::simcore::*;
use clarabel::solver::{DefaultSettings, DefaultSolver, IPSolver, SolverStatus};
use std::panic::{catch_unwind, AssertUnwindSafe};

#[derive(Clone, Debug)]
pub struct Violation {
    pub class: String,
    pub detail: String,
    /// identifies the failing input / call site / history for known-findings matching
    pub key: String,
}

impl Violation {
    pub fn new(class: &str, detail: String) -> Self {
        Violation {
            class: class.to_string(),
            detail,
            key: String::new(),
        }
    }
    pub fn keyed(class: &str, key: &str, detail: String) -> Self {
        Violation {
            class: class.to_string(),
            detail,
            key: key.to_string(),
        }
    }
}

#[derive(Clone, Debug, Default)]
pub struct RunOutcome {
    pub violations: Vec<Violation>,
    /// counted as distinct+nontrivial by the property's stated rule
    pub nontrivial: bool,
    /// one-line description of the case (used for evidence samples)
    pub summary: String,
}

#[derive(Clone, Debug, PartialEq)]
pub struct Snap {
    pub status: SolverStatus,
    pub iterations: u32,
    pub x: Vec<f64>,
    pub s: Vec<f64>,
    pub z: Vec<f64>,
    pub obj_val: f64,
    pub obj_val_dual: f64,
    pub r_prim: f64,
    pub r_dual: f64,
    pub solve_time: f64,
    pub info_step_length: f64,
}

impl Snap {
    pub fn of(solver: &DefaultSolver<f64>) -> Snap {
        let s = &solver.solution;
        Snap {
            status: s.status,
            iterations: s.iterations,
            x: s.x.clone(),
            s: s.s.clone(),
            z: s.z.clone(),
            obj_val: s.obj_val,
            obj_val_dual: s.obj_val_dual,
            r_prim: s.r_prim,
            r_dual: s.r_dual,
            solve_time: s.solve_time,
            info_step_length: solver.info.step_length,
        }
    }
    /// numeric comparison (IEEE equality, so +0 == -0; NaN == NaN) of everything
    /// except solve_time.  Used where the two executions are not the *same call*
    /// (a re-solve, an updated vs a rebuilt solver): stale work buffers can flip
    /// the sign of a zero (0*stale), which no property forbids.
    pub fn diff_numeric(&self, other: &Snap) -> Option<String> {
        self.diff_impl(other, false)
    }
    /// bitwise comparison of everything except solve_time; returns the first difference
    pub fn diff_bitwise(&self, other: &Snap) -> Option<String> {
        self.diff_impl(other, true)
    }
    fn diff_impl(&self, other: &Snap, strict: bool) -> Option<String> {
        let same = |a: f64, b: f64| -> bool {
            if a.is_nan() && b.is_nan() {
                return true;
            }
            if strict {
                a.to_bits() == b.to_bits()
            } else {
                a == b
            }
        };
        if self.status != other.status {
            return Some(format!("status {:?} vs {:?}", self.status, other.status));
        }
        if self.iterations != other.iterations {
            return Some(format!(
                "iterations {} vs {}",
                self.iterations, other.iterations
            ));
        }
        let sc = [
            ("obj_val", self.obj_val, other.obj_val),
            ("obj_val_dual", self.obj_val_dual, other.obj_val_dual),
            ("r_prim", self.r_prim, other.r_prim),
            ("r_dual", self.r_dual, other.r_dual),
        ];
        for (n, a, b) in sc {
            if !same(a, b) {
                return Some(format!("{} {:e} vs {:e}", n, a, b));
            }
        }
        for (n, a, b) in [
            ("x", &self.x, &other.x),
            ("s", &self.s, &other.s),
            ("z", &self.z, &other.z),
        ] {
            if a.len() != b.len() {
                return Some(format!("len({}) {} vs {}", n, a.len(), b.len()));
            }
            for i in 0..a.len() {
                if !same(a[i], b[i]) {
                    return Some(format!("{}[{}] {:e} vs {:e}", n, i, a[i], b[i]));
                }
            }
        }
        None
    }
    pub fn short(&self) -> String {
        format!(
            "{:?} it={} obj={:.6e} dual={:.6e} rp={:.2e} rd={:.2e}",
            self.status, self.iterations, self.obj_val, self.obj_val_dual, self.r_prim, self.r_dual
        )
    }
}

pub fn is_terminal(s: SolverStatus) -> bool {
    !matches!(s, SolverStatus::Unsolved)
}

pub fn is_maxtime_family(s: SolverStatus) -> bool {
    matches!(
        s,
        SolverStatus::MaxTime
            | SolverStatus::AlmostSolved
            | SolverStatus::AlmostPrimalInfeasible
            | SolverStatus::AlmostDualInfeasible
    )
}

/// wrapped constructor: logs invoke/return, catches panics
pub fn sv_new(
    sid: u32,
    prob: &Prob,
    settings: DefaultSettings<f64>,
) -> Result<DefaultSolver<f64>, String> {
    call(sid, "new", false, String::new());
    let p = prob.p_user.to_clarabel();
    let a = prob.a.to_clarabel();
    let cones = prob.cones_clarabel();
    let r = catch_unwind(AssertUnwindSafe(|| {
        DefaultSolver::new(&p, &prob.q, &a, &prob.b, &cones, settings)
    }));
    match r {
        Ok(s) => {
            call(sid, "new", true, "ok".to_string());
            // debugging aid for replays: SIM_DUMP=<dir> writes every constructed problem, exactly
            // as given, in the format load_from_file reads
            if let Ok(dir) = std::env::var("SIM_DUMP") {
                let mat = |m: &clarabel::algebra::CscMatrix<f64>| {
                    serde_json::json!({"m": m.m, "n": m.n, "colptr": m.colptr, "rowval": m.rowval, "nzval": m.nzval})
                };
                let mut st = s.settings.clone();
                if st.time_limit == f64::INFINITY {
                    st.time_limit = f64::MAX;
                }
                let doc = serde_json::json!({"P": mat(&p), "q": prob.q, "A": mat(&a), "b": prob.b,
                    "cones": serde_json::to_value(&cones).unwrap_or_default(),
                    "settings": serde_json::to_value(&st).unwrap_or_default()});
                let _ = std::fs::write(format!("{}/problem-s{}.json", dir, sid), doc.to_string());
            }
            Ok(s)
        }
        Err(e) => {
            let m = crate::panic_message(&e);
            call(sid, "new", true, format!("panic: {}", m));
            Err(m)
        }
    }
}

/// wrapped solve
pub fn sv_solve(sid: u32, solver: &mut DefaultSolver<f64>) -> Result<Snap, String> {
    call(sid, "solve", false, String::new());
    let r = catch_unwind(AssertUnwindSafe(|| solver.solve()));
    match r {
        Ok(()) => {
            let snap = Snap::of(solver);
            with_sim(|m| {
                m.fold_result(sid as u64);
                m.fold_result(snap.status as u64);
                m.fold_result(snap.iterations as u64);
                for v in snap.x.iter().chain(&snap.s).chain(&snap.z) {
                    m.fold_result(v.to_bits());
                }
                for v in [snap.obj_val, snap.obj_val_dual, snap.r_prim, snap.r_dual] {
                    m.fold_result(v.to_bits());
                }
            });
            call(sid, "solve", true, snap.short());
            Ok(snap)
        }
        Err(e) => {
            let m = crate::panic_message(&e);
            call(sid, "solve", true, format!("panic: {}", m));
            Err(m)
        }
    }
}

pub fn secs(ns: u64) -> f64 {
    std::time::Duration::from_nanos(ns).as_secs_f64()
}
