//! Independent arithmetic on the user's data (no library calls):
//! matrix-vector products with absolute-term tracking, objective and
//! residual recomputation, infinite-bound model, hand reduction.

use crate::gen::{ConeSpec, Mat, Prob};

/// value together with the sum of absolute values of the terms that made it
#[derive(Clone, Copy, Debug)]
pub struct Tracked {
    pub v: f64,
    pub abs: f64,
}

pub fn dot_t(a: &[f64], b: &[f64]) -> Tracked {
    let mut v = 0.0;
    let mut abs = 0.0;
    for (x, y) in a.iter().zip(b) {
        v += x * y;
        abs += (x * y).abs();
    }
    Tracked { v, abs }
}

pub fn norm2(a: &[f64]) -> f64 {
    a.iter().map(|x| x * x).sum::<f64>().sqrt()
}
pub fn norm_inf(a: &[f64]) -> f64 {
    a.iter().fold(0.0f64, |m, x| m.max(x.abs()))
}

/// y = A x, with per-row absolute sums
pub fn mul(a: &Mat, x: &[f64]) -> (Vec<f64>, Vec<f64>) {
    let mut y = vec![0.0; a.m];
    let mut ab = vec![0.0; a.m];
    for j in 0..a.n {
        for k in a.colptr[j]..a.colptr[j + 1] {
            let t = a.nzval[k] * x[j];
            y[a.rowval[k]] += t;
            ab[a.rowval[k]] += t.abs();
        }
    }
    (y, ab)
}

/// y = A' z
pub fn mul_t(a: &Mat, z: &[f64]) -> (Vec<f64>, Vec<f64>) {
    let mut y = vec![0.0; a.n];
    let mut ab = vec![0.0; a.n];
    for j in 0..a.n {
        for k in a.colptr[j]..a.colptr[j + 1] {
            let t = a.nzval[k] * z[a.rowval[k]];
            y[j] += t;
            ab[j] += t.abs();
        }
    }
    (y, ab)
}

/// y = P x with P given by its upper triangle
pub fn symmul(p_triu: &Mat, x: &[f64]) -> (Vec<f64>, Vec<f64>) {
    let n = p_triu.n;
    let mut y = vec![0.0; n];
    let mut ab = vec![0.0; n];
    for j in 0..n {
        for k in p_triu.colptr[j]..p_triu.colptr[j + 1] {
            let i = p_triu.rowval[k];
            let v = p_triu.nzval[k];
            y[i] += v * x[j];
            ab[i] += (v * x[j]).abs();
            if i != j {
                y[j] += v * x[i];
                ab[j] += (v * x[i]).abs();
            }
        }
    }
    (y, ab)
}

/// The data the solver is actually solving, as the *model* derives it from
/// the user's data and the infinity bound in force at build time.
#[derive(Clone, Debug)]
pub struct Effective {
    /// rows kept (false = dropped as an infinite bound)
    pub keep: Vec<bool>,
    /// b capped at the bound (full length)
    pub b_capped: Vec<f64>,
    pub n_dropped: usize,
}

/// rows the property says are dropped: in a nonnegative cone, b at or above the
/// bound (the code contracts the bound by 10 eps so that "at" is included)
pub fn effective(prob: &Prob, infbound: f64, presolve: bool) -> Effective {
    let thr = (1.0 - f64::EPSILON * 10.0) * infbound;
    let mut keep = vec![true; prob.m];
    let mut row = 0;
    let mut n_dropped = 0;
    for c in &prob.cones {
        let d = c.dim();
        // a singleton second-order cone *is* the nonnegative half-line (and the solver
        // consolidates it into a nonnegative cone)
        if presolve && matches!(c, ConeSpec::Nonneg(_) | ConeSpec::Soc(1)) {
            for k in 0..d {
                if prob.b[row + k] > thr {
                    keep[row + k] = false;
                    n_dropped += 1;
                }
            }
        }
        row += d;
    }
    let b_capped = prob.b.iter().map(|v| v.min(infbound)).collect();
    Effective {
        keep,
        b_capped,
        n_dropped,
    }
}

/// the problem with the dropped rows deleted by hand and b capped by hand
pub fn hand_reduce(prob: &Prob, eff: &Effective) -> Prob {
    let mut cones = vec![];
    let mut row = 0;
    for c in &prob.cones {
        let d = c.dim();
        match c {
            ConeSpec::Nonneg(_) | ConeSpec::Soc(1) => {
                let k = (0..d).filter(|i| eff.keep[row + i]).count();
                cones.push(ConeSpec::Nonneg(k)); // possibly 0: an empty cone
            }
            other => cones.push(other.clone()),
        }
        row += d;
    }
    let a = prob.a.select_rows(&eff.keep);
    let b: Vec<f64> = (0..prob.m)
        .filter(|i| eff.keep[*i])
        .map(|i| eff.b_capped[i])
        .collect();
    Prob {
        n: prob.n,
        m: a.m,
        p_user: prob.p_user.clone(),
        p_triu: prob.p_triu.clone(),
        q: prob.q.clone(),
        a,
        b,
        cones,
        kind: prob.kind.clone(),
        planted: None,
    }
}

/// strict membership (with a relative margin) in a cone or its dual
pub fn strictly_inside(cone: &ConeSpec, v: &[f64], dual: bool, margin: f64) -> bool {
    if cone.dim() == 0 {
        return true;
    }
    let scale = norm_inf(v).max(1e-300);
    match cone {
        ConeSpec::Zero(_) => {
            if dual {
                true
            } else {
                v.iter().all(|x| x.abs() <= margin * scale)
            }
        }
        ConeSpec::Nonneg(_) => v.iter().all(|x| *x > margin * scale),
        ConeSpec::Soc(_) => v[0] - norm2(&v[1..]) > margin * scale,
        ConeSpec::Exp => {
            if !dual {
                v[1] > margin * scale && v[2] > margin * scale && v[1] * (v[2] / v[1]).ln() - v[0] > margin * scale
            } else {
                v[0] < -margin * scale
                    && v[2] > margin * scale
                    && v[1] - v[0] - v[0] * (-v[2] / v[0]).ln() > margin * scale
            }
        }
        ConeSpec::Pow(a) => {
            if !(v[0] > margin * scale && v[1] > margin * scale) {
                return false;
            }
            let bound = if !dual {
                v[0].powf(*a) * v[1].powf(1.0 - a)
            } else {
                (v[0] / a).powf(*a) * (v[1] / (1.0 - a)).powf(1.0 - a)
            };
            bound - v[2].abs() > margin * scale
        }
        ConeSpec::GenPow(alpha, _) => {
            let d1 = alpha.len();
            if !v[..d1].iter().all(|x| *x > margin * scale) {
                return false;
            }
            let mut bound = 1.0;
            for (x, a) in v[..d1].iter().zip(alpha) {
                bound *= if !dual { x.powf(*a) } else { (x / a).powf(*a) };
            }
            bound - norm2(&v[d1..]) > margin * scale
        }
    }
}

/// is (xp, xd, z0) a strictly feasible primal point / dual point for this data?
pub fn planted_ok(prob: &Prob, xp: &[f64], xd: &[f64], z0: &[f64]) -> bool {
    let (ax, _) = mul(&prob.a, xp);
    let s: Vec<f64> = (0..prob.m).map(|i| prob.b[i] - ax[i]).collect();
    let mut row = 0;
    for c in &prob.cones {
        let d = c.dim();
        if !strictly_inside(c, &s[row..row + d], false, 1e-6) {
            return false;
        }
        if !strictly_inside(c, &z0[row..row + d], true, 1e-6) {
            return false;
        }
        row += d;
    }
    let (px, pabs) = symmul(&prob.p_triu, xd);
    let (atz, aabs) = mul_t(&prob.a, z0);
    for j in 0..prob.n {
        let r = px[j] + atz[j] + prob.q[j];
        let sc = pabs[j] + aabs[j] + prob.q[j].abs();
        if r.abs() > 1e-9 * sc.max(1e-300) {
            return false;
        }
    }
    true
}

#[derive(Clone, Debug)]
pub struct Recomputed {
    pub obj: Tracked,
    pub obj_dual: Tracked,
    pub r_prim: f64,
    pub r_prim_slack: f64,
    pub r_dual: f64,
    pub r_dual_slack: f64,
    pub bz: Tracked,
    pub qx: Tracked,
}

/// relative rounding allowance: 2^-36 of the sum of absolute terms
pub const REL: f64 = 1.4551915228366852e-11;

/// recompute the report from (x, s, z) and the user's data
pub fn recompute(prob: &Prob, eff: &Effective, x: &[f64], s: &[f64], z: &[f64]) -> Recomputed {
    let (px, pxabs) = symmul(&prob.p_triu, x);
    let xpx = dot_t(x, &px);
    // |x'Px| terms: use x .* (|P||x|)
    let xpx_abs: f64 = x.iter().zip(&pxabs).map(|(a, b)| (a * b).abs()).sum();
    let qx = dot_t(&prob.q, x);
    let bk: Vec<f64> = (0..prob.m)
        .map(|i| if eff.keep[i] { eff.b_capped[i] } else { 0.0 })
        .collect();
    let zk: Vec<f64> = (0..prob.m)
        .map(|i| if eff.keep[i] { z[i] } else { 0.0 })
        .collect();
    let bz = dot_t(&bk, &zk);
    let obj = Tracked {
        v: 0.5 * xpx.v + qx.v,
        abs: 0.5 * xpx_abs + qx.abs,
    };
    let obj_dual = Tracked {
        v: -bz.v - 0.5 * xpx.v,
        abs: bz.abs + 0.5 * xpx_abs,
    };
    // primal residual on kept rows
    let (ax, axabs) = mul(&prob.a, x);
    let mut rp = vec![];
    let mut rp_abs = vec![];
    let mut sk = vec![];
    for i in 0..prob.m {
        if eff.keep[i] {
            rp.push(ax[i] + s[i] - eff.b_capped[i]);
            rp_abs.push(axabs[i] + s[i].abs() + eff.b_capped[i].abs());
            sk.push(s[i]);
        }
    }
    let bkept: Vec<f64> = (0..prob.m)
        .filter(|i| eff.keep[*i])
        .map(|i| eff.b_capped[i])
        .collect();
    let den_p = 1.0f64.max(norm_inf(&bkept) + norm2(x) + norm2(&sk));
    let r_prim = norm2(&rp) / den_p;
    let r_prim_slack = REL * norm2(&rp_abs) / den_p;
    // dual residual
    let (atz, atzabs) = mul_t(&prob.a, &zk);
    let mut rd = vec![];
    let mut rd_abs = vec![];
    for j in 0..prob.n {
        rd.push(px[j] + atz[j] + prob.q[j]);
        rd_abs.push(pxabs[j] + atzabs[j] + prob.q[j].abs());
    }
    let den_d = 1.0f64.max(norm_inf(&prob.q) + norm2(x) + norm2(&zk));
    let r_dual = norm2(&rd) / den_d;
    let r_dual_slack = REL * norm2(&rd_abs) / den_d;
    Recomputed {
        obj,
        obj_dual,
        r_prim,
        r_prim_slack,
        r_dual,
        r_dual_slack,
        bz,
        qx,
    }
}

pub fn bits(v: &[f64]) -> Vec<u64> {
    v.iter().map(|x| x.to_bits()).collect()
}

/// number of ulps between two finite doubles of the same sign (large if not)
pub fn ulps(a: f64, b: f64) -> u64 {
    if a == b {
        return 0;
    }
    if a.is_nan() || b.is_nan() || (a < 0.0) != (b < 0.0) {
        if a == 0.0 || b == 0.0 {
            // distance from zero: count from the smallest subnormal
            let x = if a == 0.0 { b } else { a };
            return x.abs().to_bits();
        }
        return u64::MAX;
    }
    let (x, y) = (a.abs().to_bits(), b.abs().to_bits());
    x.max(y) - x.min(y)
}
