#![allow(dead_code)]
//! Deterministic simulation with fault injection for Clarabel.rs.
//!
//!   sim run <PROP> [--tier quick|thorough] [--seed N] [--workers W] [--runs N]
//!   sim worker <PROP> <tier> <seed> <first> <count> <stride>      (internal)
//!   sim replay <file> [--log]
//!
//! exit 0: property held on everything explored (known findings listed)
//! exit 1: VIOLATION property=<id> replay=<path>
//! exit 2: harness error

mod choice;
mod gen;
mod harness;
mod props;
mod refmath;
mod simcore;
mod timermodel;

use choice::{mix, Choice, ChoiceStream};
use harness::{RunOutcome, Violation};
use serde_json::{json, Value};
use simcore::Sim;
use std::collections::{BTreeMap, BTreeSet};
use std::io::{BufRead, BufReader, Write};
use std::process::{Command, Stdio};
use std::time::Instant;

#[derive(Clone, Copy, Debug, PartialEq)]
pub enum Tier {
    Quick,
    Thorough,
}

impl Tier {
    fn name(&self) -> &'static str {
        match self {
            Tier::Quick => "quick",
            Tier::Thorough => "thorough",
        }
    }
    fn parse(s: &str) -> Tier {
        match s {
            "thorough" => Tier::Thorough,
            _ => Tier::Quick,
        }
    }
}

/// scratch directory for files the solver really writes/reads: memory-backed
/// when /dev/shm is available (the ext4 root is mounted with `discard`, which
/// makes tens of thousands of small rewrites per second very slow), else
/// <verif>/work/<pid>.  Created on demand, removed by the worker at exit.
pub fn scratch_dir() -> String {
    let shm = format!("/dev/shm/clarabel-verif-sim-{}", std::process::id());
    if std::fs::create_dir_all(&shm).is_ok() {
        return shm;
    }
    let dir = format!("{}/work/{}", verif_root(), std::process::id());
    std::fs::create_dir_all(&dir).ok();
    dir
}

pub fn panic_message(e: &Box<dyn std::any::Any + Send>) -> String {
    if let Some(s) = e.downcast_ref::<&str>() {
        s.to_string()
    } else if let Some(s) = e.downcast_ref::<String>() {
        s.clone()
    } else {
        "<non-string panic>".to_string()
    }
}

/// root of the verification tree (evidence, replays, known findings, scratch);
/// the check script exports VERIF_ROOT so that a snapshot of /verif run elsewhere
/// keeps its outputs to itself
pub fn verif_root() -> String {
    std::env::var("VERIF_ROOT").unwrap_or_else(|_| "/verif".to_string())
}
const DEFAULT_SEED: u64 = 20261002;

struct PropDef {
    id: &'static str,
    num: u64,
    level: &'static str,
    run: fn(Tier) -> RunOutcome,
    quick_runs: u64,
    thorough_runs: u64,
    rule: &'static str,
    assumptions: &'static [&'static str],
}

fn props() -> Vec<PropDef> {
    vec![PropDef {
        id: "C04",
        num: 4,
        level: "exploration",
        run: props::c04::run,
        quick_runs: 500_000,
        thorough_runs: 6_000_000,
        rule: "one case = (generated problem, settings, solve history, clock profile) drawn from the seeded choice stream, executed twice (frozen-clock reference, clock under test); non-trivial = the time limit was certainly exceeded (T_lo > limit) at an iteration boundary of at least one solve; distinct = distinct hash of the run's (thread, event kind, fault/delta class) sequence",
        assumptions: &[
            "simulated time advances only at clock reads (Instant seam in timers.rs)",
            "timer label events are emitted faithfully by the guarded hook lines",
            "print-span time is not counted against time_limit (notimeit! intent)",
        ],
    },
    PropDef {
        id: "C03",
        num: 3,
        level: "exploration",
        run: props::c03::run,
        quick_runs: 400_000,
        thorough_runs: 6_000_000,
        rule: "one case = (generated problem, settings, history of 1-3 solves each cut by the simulated clock at a chosen clock read and/or by max_iter at a chosen iteration); non-trivial = at least one solve ended in a status other than Solved/PrimalInfeasible/DualInfeasible (MaxTime, MaxIterations, Almost*, InsufficientProgress, NumericalError); distinct = distinct hash of the run's event-shape sequence",
        assumptions: &[
            "agreement 'to rounding' is taken as 2^-36 of the sum of absolute values of the terms of each recomputed quantity",
            "Almost*Infeasible tolerances are scale dependent (need tau/kappa) and are only checked for certificate sign and NaN objectives",
        ],
    },
    PropDef {
        id: "C20",
        num: 20,
        level: "exploration",
        run: props::c20::run,
        quick_runs: 100_000,
        thorough_runs: 2_000_000,
        rule: "one case = (generated problem incl. infinite bounds, settings, history of 1-2 solves cut by clock/max_iter) executed once per print target (buffer = reference R4, stream with seeded short writes/EINTR, file read both when the last solve() has returned and after the solver is dropped, sink, stream with a hard fault at a chosen call) under a clock that is a pure function of the read index; non-trivial = verbose on and at least one short-write or EINTR rate non-zero; distinct = distinct hash of the run's event-shape sequence (thread, event kind, sink outcome kind)",
        assumptions: &[
            "stdout is observed through the same PrintTarget::write path as the other targets (child-process capture is exercised by the stdout probe only)",
            "whether solve() may panic on a hard sink error is not stated by any property and is only counted",
        ],
    },
    PropDef {
        id: "C09",
        num: 9,
        level: "exploration",
        run: props::c09::run,
        quick_runs: 60_000,
        thorough_runs: 500_000,
        rule: "one case = (1-2 generated problems with right-hand sides planted at/above several candidate bounds, settings, and either a sequential history of set_infinity/default_infinity around New/solve/re-solve or 2-4 simulated threads in which setter threads store to the bound while solver threads construct and solve); non-trivial = some row was dropped or capped, or a store landed between invoke and return of a construction; distinct = distinct hash of the (thread, event kind) sequence, i.e. distinct interleavings",
        assumptions: &[
            "the bound is modelled as a sequentially consistent register; every access to it is a yield point (guarded hook at the three accessors)",
            "interleaving granularity = seam calls (clock reads, sink calls, infinity accessors); the crate has no other shared state",
        ],
    },
    PropDef {
        id: "C05",
        num: 5,
        level: "exploration",
        run: props::c05::run,
        quick_runs: 40_000,
        thorough_runs: 300_000,
        rule: "one case = either (a) 2-3 solver programs (New, solve, update_q/b, re-solve, with max_iter/time cuts and optional faulty print streams) on simulated threads plus 0-1 threads storing to the infinity bound, scheduled by the seeded baton at every seam call and compared bit for bit with each program run alone, or (b) one solver solved twice and solved after 1-2 interrupted solves, compared bit for bit with an uninterrupted first solve (half of these on problems scaled over 10^+-8..24, where initial KKT solves and first iterations break down); in addition a quarter of all cases is executed again in another worker process after a different history of earlier cases, and a differing event log is triaged (the case alone in a fresh process, then the delta-debugged history) into a replayable sequence of cases; non-trivial = (a) at least one scheduler hand-off happened inside a solve(), (b) always; distinct = distinct hash of the (thread, event kind) sequence = distinct interleavings",
        assumptions: &[
            "only the schedule / re-solve / reproducibility clauses of C05 are decided; the formulation-equivalence clauses are pure functions of the input and not claimed",
            "interleaving granularity = seam calls (about 12 clock reads per iteration, every sink call, every infinity accessor) plus the 14 Event::Yield scheduling points at internal layer boundaries; shared state written and read between two consecutive scheduling points is invisible",
        ],
    },
    PropDef {
        id: "C19",
        num: 19,
        level: "fault_enumeration",
        run: props::c19::run,
        quick_runs: 12_000,
        thorough_runs: 800,
        rule: "one case = one generated problem+settings saved to a real file, then (a) the fault-free round trip (stored data vs originals, settings, load with override, solve of the loaded problem), (b) descriptor faults (/dev/full, read-only, write-only, directory, handle not rewound, stale tail, pipe with 1-7 byte reads), (c) disk faults applied to the stored bytes: quick = lost write + 24 truncations + 40 bit flips at random offsets + 36 digit-to-digit flips inside the structural fields (m, n, colptr, rowval, cone list; first array entries favoured) + 40 hostile-byte substitutions + sector zeroing + duplicated tail; thorough = every truncation offset and every bit of every byte of the file, plus one substitution per byte; every case is non-trivial (a real file is written, faulted and loaded); distinct = distinct hash of the run's event-shape sequence",
        assumptions: &[
            "files live under /dev/shm/clarabel-verif-sim-<pid> (fallback <verif>/work/<pid>); the OS provides /dev/full, pipes and regular files",
            "EINTR on the JSON file handles is not injected (the seam is a concrete std::fs::File)",
        ],
    },
    PropDef {
        id: "C08",
        num: 8,
        level: "exploration",
        run: props::c08::run,
        quick_runs: 300_000,
        thorough_runs: 3_000_000,
        rule: "one case = (generated problem, settings, history of 2-12 operations: update_P/q/A/b/update_data in every argument form, valid or invalid (wrong length, out-of-range index after valid ones, pattern mismatch incl. same-entry-count ones, presolve active, settings.presolve_enable toggled around the call), and solves cut by max_iter or the simulated clock); non-trivial = a solve follows an accepted non-empty update, or an update was rejected; distinct = distinct hash of the run's event-shape sequence",
        assumptions: &[
            "with equilibration on, bitwise equality with a fresh solver is not implied; verdict class and the weak-duality objective slack are compared when both statuses are definite",
            "for a rejected indexed update both 'untouched' and 'prefix before the bad index applied' are accepted, as the property leaves this open",
        ],
    }]
}

fn find_prop(id: &str) -> PropDef {
    props()
        .into_iter()
        .find(|p| p.id == id)
        .unwrap_or_else(|| {
            eprintln!("unknown property {}", id);
            std::process::exit(2)
        })
}

fn run_seed(seed: u64, prop: &PropDef, idx: u64) -> u64 {
    mix(mix(seed, prop.num), idx)
}

/// execute one run with the given choice stream; returns outcome + simulator
fn execute(prop: &PropDef, tier: Tier, cs: ChoiceStream) -> (Result<RunOutcome, String>, Sim) {
    simcore::install(Sim::new(cs));
    let f = prop.run;
    let r = std::panic::catch_unwind(move || f(tier));
    let sim = simcore::uninstall();
    (r.map_err(|e| panic_message(&e)), sim)
}

fn choices_to_json(c: &[Choice]) -> Value {
    Value::Array(
        c.iter()
            .map(|c| json!([c.tag, c.n, c.v]))
            .collect::<Vec<_>>(),
    )
}

fn choices_from_json(v: &Value) -> Vec<Choice> {
    v.as_array()
        .map(|a| {
            a.iter()
                .map(|e| Choice {
                    tag: e[0].as_str().unwrap_or("").to_string(),
                    n: e[1].as_u64().unwrap_or(1) as u32,
                    v: e[2].as_u64().unwrap_or(0) as u32,
                })
                .collect()
        })
        .unwrap_or_default()
}

/// delta-debug the choice list while the same violation class persists
fn shrink(prop: &PropDef, tier: Tier, start: Vec<Choice>, class: &str, budget: usize) -> (Vec<Choice>, usize) {
    let mut best = start;
    let mut used = 0usize;
    let still_fails = |cand: &Vec<Choice>, used: &mut usize| -> Option<Vec<Choice>> {
        *used += 1;
        let (r, sim) = execute(prop, tier, ChoiceStream::replay(cand.clone()));
        match r {
            Ok(out) if out.violations.iter().any(|v| v.class == class) => Some(sim.cs.record),
            _ => None,
        }
    };
    // pass A: zero individual choices (keeps the stream aligned, so it is the
    // most productive move); pass B: delete chunks; then A again; pass C: halve
    fn zero_pass(
        best: &mut Vec<Choice>,
        used: &mut usize,
        budget: usize,
        f: &dyn Fn(&Vec<Choice>, &mut usize) -> Option<Vec<Choice>>,
    ) {
        let mut i = 0;
        while i < best.len() && *used < budget {
            if best[i].v != 0 {
                let mut cand = best.clone();
                cand[i].v = 0;
                if let Some(rec) = f(&cand, used) {
                    *best = rec;
                }
            }
            i += 1;
        }
    }
    zero_pass(&mut best, &mut used, budget, &still_fails);
    for chunk in [16usize, 8, 4, 2, 1] {
        let mut i = 0;
        while i + chunk <= best.len() && used < budget {
            let mut cand = best.clone();
            cand.drain(i..i + chunk);
            if let Some(rec) = still_fails(&cand, &mut used) {
                best = rec;
            } else {
                i += chunk;
            }
        }
    }
    zero_pass(&mut best, &mut used, budget, &still_fails);
    let mut i = 0;
    while i < best.len() && used < budget {
        if best[i].v > 1 {
            let mut cand = best.clone();
            cand[i].v /= 2;
            if let Some(rec) = still_fails(&cand, &mut used) {
                best = rec;
                continue; // try halving again
            }
            let mut cand = best.clone();
            cand[i].v -= 1;
            if let Some(rec) = still_fails(&cand, &mut used) {
                best = rec;
            }
        }
        i += 1;
    }
    // trailing zeros are implied
    while best.last().map(|c| c.v == 0).unwrap_or(false) {
        best.pop();
    }
    (best, used)
}

fn violation_json(v: &Violation) -> Value {
    json!({"class": v.class, "key": v.key, "detail": v.detail})
}

// ------------------------------------------------------------------
// worker
// ------------------------------------------------------------------

fn worker_main(args: &[String]) {
    let prop = find_prop(&args[0]);
    let tier = Tier::parse(&args[1]);
    let seed: u64 = args[2].parse().unwrap();
    let first: u64 = args[3].parse().unwrap();
    let count: u64 = args[4].parse().unwrap();
    let stride: u64 = args[5].parse().unwrap();
    let sample_every: u64 = args.get(6).and_then(|s| s.parse().ok()).unwrap_or(1000);
    std::panic::set_hook(Box::new(|_| {}));
    let workdir = scratch_dir();
    let stdout = std::io::stdout();
    let mut shrunk_classes: BTreeSet<String> = BTreeSet::new();
    let mut idx = first;
    for k in 0..count {
        {
            let mut o = stdout.lock();
            writeln!(o, "START {}", idx).ok();
            o.flush().ok();
        }
        let rs = run_seed(seed, &prop, idx);
        let (r, sim) = execute(&prop, tier, ChoiceStream::search(rs));
        let mut res = json!({
            "idx": idx,
            "hash": format!("{:016x}", sim.hash),
            "rhash": format!("{:016x}", sim.result_hash),
            "shape": format!("{:016x}", sim.shape_hash),
            "events": sim.n_events,
            "reads": sim.clocks.iter().map(|c| c.idx).sum::<u64>(),
            "sim_ns": sim.total_sim_ns,
            "switches": sim.n_switches,
            "probes": sim.probes.iter().map(|(k,v)| (k.to_string(), json!(v))).collect::<serde_json::Map<_,_>>(),
            "sink": {
                "short": sim.sinks.iter().map(|s| s.n_short as u64).sum::<u64>(),
                "eintr": sim.sinks.iter().map(|s| s.n_eintr as u64).sum::<u64>(),
                "hard": sim.sinks.iter().map(|s| s.n_hard as u64).sum::<u64>(),
                "flush_err": sim.sinks.iter().map(|s| s.n_flush_err as u64).sum::<u64>(),
            },
        });
        match r {
            Err(msg) => {
                res["harness_error"] = json!(msg);
                res["choices"] = choices_to_json(&sim.cs.record);
            }
            Ok(out) => {
                res["nontrivial"] = json!(out.nontrivial);
                if k % sample_every == 0 || !out.violations.is_empty() {
                    res["summary"] = json!(out.summary);
                }
                if !out.violations.is_empty() {
                    // minimise for the first violation class
                    let class = out.violations[0].class.clone();
                    // minimise the first occurrence of each class in this worker;
                    // later ones are reported as found
                    let budget = if shrunk_classes.insert(class.clone()) { 600 } else { 0 };
                    if budget == 0 {
                        res["violations"] =
                            Value::Array(out.violations.iter().map(violation_json).collect());
                        res["choices"] = choices_to_json(&sim.cs.record);
                        res["unshrunk"] = json!(true);
                        let mut o = stdout.lock();
                        writeln!(o, "RESULT {}", res).ok();
                        o.flush().ok();
                        idx += stride;
                        continue;
                    }
                    let (min, used) = shrink(&prop, tier, sim.cs.record.clone(), &class, budget);
                    let (r2, sim2) = execute(&prop, tier, ChoiceStream::replay(min.clone()));
                    let (vs, trace): (Vec<Violation>, Vec<String>) = match r2 {
                        Ok(o2) if o2.violations.iter().any(|v| v.class == class) => (
                            o2.violations,
                            sim2.log.iter().map(|e| e.render()).collect(),
                        ),
                        _ => (
                            out.violations.clone(),
                            sim.log.iter().map(|e| e.render()).collect(),
                        ),
                    };
                    res["violations"] = Value::Array(vs.iter().map(violation_json).collect());
                    res["orig_violations"] =
                        Value::Array(out.violations.iter().map(violation_json).collect());
                    res["choices"] = choices_to_json(&min);
                    res["orig_choices_len"] = json!(sim.cs.record.len());
                    res["shrink_execs"] = json!(used);
                    res["min_hash"] = json!(format!("{:016x}", sim2.hash));
                    let tl = trace.len();
                    let keep: Vec<String> = if tl > 400 {
                        let mut t: Vec<String> = trace[..150].to_vec();
                        t.push(format!("... {} events elided ...", tl - 400));
                        t.extend_from_slice(&trace[tl - 250..]);
                        t
                    } else {
                        trace
                    };
                    res["trace"] = json!(keep);
                }
            }
        }
        {
            let mut o = stdout.lock();
            writeln!(o, "RESULT {}", res).ok();
            o.flush().ok();
        }
        idx += stride;
    }
    std::fs::remove_dir_all(&workdir).ok();
}

// ------------------------------------------------------------------
// parent
// ------------------------------------------------------------------

struct Known {
    class: String,
    key: String,
    text: String,
}

fn load_known(prop: &str) -> Vec<Known> {
    let mut out = vec![];
    let path = format!("{}/known_findings.txt", verif_root());
    if let Ok(s) = std::fs::read_to_string(path) {
        for line in s.lines() {
            let line = line.trim();
            if !line.starts_with("finding:") {
                continue;
            }
            let mut p = "";
            let mut class = "";
            let mut key = "";
            for tok in line.split_whitespace() {
                if let Some(v) = tok.strip_prefix("property=") {
                    p = v;
                } else if let Some(v) = tok.strip_prefix("class=") {
                    class = v;
                } else if let Some(v) = tok.strip_prefix("key=") {
                    key = v;
                }
            }
            if p == prop {
                out.push(Known {
                    class: class.to_string(),
                    key: key.to_string(),
                    text: line.to_string(),
                });
            }
        }
    }
    out
}

struct BatchResult {
    results: Vec<Value>,
    aborted: Vec<(u64, String)>, // run idx, how the worker died
}

fn run_batch(
    prop: &PropDef,
    tier: Tier,
    seed: u64,
    total: u64,
    workers: u64,
    only_every: u64,
) -> BatchResult {
    // positions p = 0..total map to run indices p*only_every;
    // worker w handles positions w, w+workers, ...  Each slot is supervised by one thread:
    // a worker that dies (or is killed by the watchdog because a run hangs) is replaced by a
    // new process that continues after the fatal run, a bounded number of times.
    let exe = std::env::current_exe().expect("current_exe");
    let stride = workers * only_every;
    let sample = if tier == Tier::Quick { "500" } else { "20000" };
    let limit = std::time::Duration::from_secs(if tier == Tier::Quick { 120 } else { 600 });
    let mut handles = vec![];
    for w in 0..workers {
        let n_mine = (total + workers - 1 - w) / workers;
        if n_mine == 0 {
            continue;
        }
        let exe = exe.clone();
        let prop_id = prop.id;
        let tier_name = tier.name();
        handles.push(std::thread::spawn(move || {
            let mut results: Vec<Value> = vec![];
            let mut aborted: Vec<(u64, String)> = vec![];
            let mut first = w * only_every;
            let mut remaining = n_mine;
            let mut restarts = 0;
            while remaining > 0 {
                let mut child = Command::new(&exe)
                    .arg("worker")
                    .arg(prop_id)
                    .arg(tier_name)
                    .arg(seed.to_string())
                    .arg(first.to_string())
                    .arg(remaining.to_string())
                    .arg(stride.to_string())
                    .arg(sample)
                    .stdout(Stdio::piped())
                    .stderr(Stdio::null())
                    .spawn()
                    .expect("spawn worker");
                let out = child.stdout.take().unwrap();
                let pid = child.id();
                let last_line = std::sync::Arc::new(std::sync::Mutex::new(Instant::now()));
                let done = std::sync::Arc::new(std::sync::atomic::AtomicBool::new(false));
                let hung = std::sync::Arc::new(std::sync::atomic::AtomicBool::new(false));
                // watchdog: a worker that produces nothing for too long is hung inside a run
                {
                    let last_line = last_line.clone();
                    let done = done.clone();
                    let hung = hung.clone();
                    std::thread::spawn(move || loop {
                        std::thread::sleep(std::time::Duration::from_secs(2));
                        if done.load(std::sync::atomic::Ordering::SeqCst) {
                            break;
                        }
                        if last_line.lock().unwrap().elapsed() > limit {
                            hung.store(true, std::sync::atomic::Ordering::SeqCst);
                            let _ = Command::new("kill").arg("-9").arg(pid.to_string()).status();
                            break;
                        }
                    });
                }
                let mut started: Option<u64> = None;
                let mut n_done = 0u64;
                let rd = BufReader::new(out);
                for line in rd.lines() {
                    let Ok(line) = line else { break };
                    *last_line.lock().unwrap() = Instant::now();
                    if let Some(rest) = line.strip_prefix("START ") {
                        started = rest.trim().parse().ok();
                    } else if let Some(rest) = line.strip_prefix("RESULT ") {
                        if let Ok(v) = serde_json::from_str::<Value>(rest) {
                            results.push(v);
                        }
                        n_done += 1;
                        started = None;
                    }
                }
                let status = child.wait();
                done.store(true, std::sync::atomic::Ordering::SeqCst);
                let ok = status.as_ref().map(|s| s.success()).unwrap_or(false);
                if ok {
                    break;
                }
                let how = if hung.load(std::sync::atomic::Ordering::SeqCst) {
                    format!(
                        "the run produced nothing for {} s and was killed by the watchdog (hang)",
                        limit.as_secs()
                    )
                } else {
                    format!("{:?}", status)
                };
                match started {
                    Some(i) => {
                        aborted.push((i, how));
                        // continue after the fatal run
                        n_done += 1;
                        first = i + stride;
                    }
                    None => {
                        aborted.push((u64::MAX, how));
                        first += n_done * stride;
                    }
                }
                remaining = remaining.saturating_sub(n_done);
                restarts += 1;
                if restarts > 3 {
                    break;
                }
            }
            (results, aborted)
        }));
    }
    let mut br = BatchResult {
        results: vec![],
        aborted: vec![],
    };
    for h in handles {
        let (r, a) = h.join().expect("reader thread");
        br.results.extend(r);
        br.aborted.extend(a);
    }
    br.results
        .sort_by_key(|v| v["idx"].as_u64().unwrap_or(u64::MAX));
    br
}

fn write_replay(prop: &PropDef, tier: Tier, seed: u64, idx: u64, class: &str, v: &Value) -> String {
    let dir = format!("{}/replays", verif_root());
    std::fs::create_dir_all(&dir).ok();
    let path = format!("{}/{}-{}-{}.json", dir, prop.id, seed, idx);
    let body = json!({
        "property": prop.id,
        "seed": seed,
        "run": idx,
        "tier": tier.name(),
        "class": class,
        "violations": v.get("violations").cloned().unwrap_or(json!([])),
        "choices": v.get("choices").cloned().unwrap_or(Value::Null),
        "min_hash": v.get("min_hash").cloned().unwrap_or(Value::Null),
        "orig_choices_len": v.get("orig_choices_len").cloned().unwrap_or(Value::Null),
        "trace": v.get("trace").cloned().unwrap_or(json!([])),
        "sequence": v.get("sequence").cloned().unwrap_or(Value::Null),
        "fresh_hash": v.get("fresh_hash").cloned().unwrap_or(Value::Null),
        "history_hash": v.get("history_hash").cloned().unwrap_or(Value::Null),
    });
    std::fs::write(&path, serde_json::to_string_pretty(&body).unwrap()).ok();
    path
}

/// event-log hash of the last of `indices`, all executed one after the other in one fresh
/// process (`sim seq`)
fn seq_hash(prop: &PropDef, tier: Tier, seed: u64, indices: &[u64]) -> Option<String> {
    let exe = std::env::current_exe().ok()?;
    let list = indices.iter().map(|i| i.to_string()).collect::<Vec<_>>().join(",");
    let out = Command::new(exe)
        .arg("seq")
        .arg(prop.id)
        .arg(tier.name())
        .arg(seed.to_string())
        .arg(list)
        .stderr(Stdio::null())
        .output()
        .ok()?;
    String::from_utf8_lossy(&out.stdout)
        .lines()
        .find_map(|l| l.strip_prefix("HASH ").map(|h| h.trim().to_string()))
}

/// same, for the hash over the returned results only
fn seq_rhash(prop: &PropDef, tier: Tier, seed: u64, indices: &[u64]) -> Option<String> {
    let exe = std::env::current_exe().ok()?;
    let list = indices.iter().map(|i| i.to_string()).collect::<Vec<_>>().join(",");
    let out = Command::new(exe)
        .arg("seq")
        .arg(prop.id)
        .arg(tier.name())
        .arg(seed.to_string())
        .arg(list)
        .stderr(Stdio::null())
        .output()
        .ok()?;
    String::from_utf8_lossy(&out.stdout)
        .lines()
        .find_map(|l| l.strip_prefix("RHASH ").map(|h| h.trim().to_string()))
}

fn seq_main(args: &[String]) -> i32 {
    let prop = find_prop(&args[0]);
    let tier = Tier::parse(&args[1]);
    let seed: u64 = args[2].parse().unwrap_or(DEFAULT_SEED);
    std::panic::set_hook(Box::new(|_| {}));
    let mut last = String::new();
    let mut last_r = String::new();
    for idx in args[3].split(',').filter_map(|t| t.parse::<u64>().ok()) {
        let (_, sim) = execute(&prop, tier, ChoiceStream::search(run_seed(seed, &prop, idx)));
        last = format!("{:016x}", sim.hash);
        last_r = format!("{:016x}", sim.result_hash);
    }
    println!("HASH {}", last);
    println!("RHASH {}", last_r);
    0
}

/// A run whose event log differed between two worker processes.  What is compared from here on is
/// the hash over the *results* every solve returned.  Executed alone in a fresh
/// process (twice) it gives the reference hash; the worker whose hash differs had executed
/// other runs before it, and that history is minimised to a short sequence of runs which,
/// executed in one process, changes the outcome of the last one.
fn triage_mismatch(
    prop: &PropDef,
    tier: Tier,
    seed: u64,
    idx: u64,
    h1: &str,
    h2: &str,
    stride1: u64,
    stride2: u64,
) -> Option<(u64, String, String, Value)> {
    let a1 = seq_rhash(prop, tier, seed, &[idx])?;
    let a2 = seq_rhash(prop, tier, seed, &[idx])?;
    if a1 != a2 {
        let detail = format!(
            "run {} executed alone in two fresh processes returned results with hashes {} and {}",
            idx, a1, a2
        );
        let v = json!({"violations":[{"class":"C05.fresh_process_runs_differ","key":"","detail":detail}],
            "choices": Value::Null, "sequence":[idx], "fresh_hash": a1, "history_hash": a2});
        return Some((idx, "C05.fresh_process_runs_differ".to_string(), detail, v));
    }
    // h1, h2: the result hashes seen in the two worker processes.  If the results agree
    // everywhere only the event logs differed: that is not this property's business
    let (hist_hash, stride) = if h1 != a1 { (h1, stride1) } else { (h2, stride2) };
    if hist_hash == a1 {
        return None;
    }
    // the history of that worker: idx - k*stride
    let mut hist: Vec<u64> = vec![];
    let mut j = idx;
    while j >= stride {
        j -= stride;
        hist.push(j);
    }
    hist.reverse();
    let differs = |pre: &[u64]| -> bool {
        let mut l = pre.to_vec();
        l.push(idx);
        matches!(seq_rhash(prop, tier, seed, &l), Some(h) if h != a1)
    };
    let mut cur = hist.clone();
    if !differs(&cur) {
        // not reproduced from the run indices alone (e.g. a minimisation inside the worker
        // left the state behind): report unminimised
        let detail = format!(
            "run {} returned results with hash {} after {} earlier runs in its worker process and {} alone in a fresh process (sequence not reproduced in isolation)",
            idx, hist_hash, hist.len(), a1
        );
        let v = json!({"violations":[{"class":"C05.depends_on_process_history","key":"","detail":detail}],
            "choices": Value::Null, "sequence": Value::Null, "fresh_hash": a1, "history_hash": hist_hash});
        return Some((idx, "C05.depends_on_process_history".to_string(), detail, v));
    }
    // delta-debug the history: keep halves / drop chunks while the difference persists
    let mut chunk = (cur.len() + 1) / 2;
    let mut execs = 0;
    while chunk >= 1 && execs < 200 {
        let mut i = 0;
        let mut progress = false;
        while i < cur.len() && execs < 200 {
            let mut t = cur.clone();
            let end = (i + chunk).min(t.len());
            t.drain(i..end);
            execs += 1;
            if differs(&t) {
                cur = t;
                progress = true;
            } else {
                i += chunk;
            }
        }
        if chunk == 1 && !progress {
            break;
        }
        if chunk > 1 {
            chunk = (chunk + 1) / 2;
        } else if !progress {
            break;
        }
    }
    let mut seq = cur.clone();
    seq.push(idx);
    let hh = seq_rhash(prop, tier, seed, &seq).unwrap_or_default();
    let detail = format!(
        "identical call not reproducible: run {} returns results with hash {} alone in a fresh process but {} when runs {:?} were executed before it in the same process ({} earlier runs in the worker where it was seen)",
        idx, a1, hh, cur, hist.len()
    );
    let v = json!({"violations":[{"class":"C05.depends_on_process_history","key":"","detail":detail}],
        "choices": Value::Null, "sequence": seq, "fresh_hash": a1, "history_hash": hh});
    Some((idx, "C05.depends_on_process_history".to_string(), detail, v))
}

/// scratch directories left behind by workers that were killed (watchdog, interrupted run)
fn sweep_stale_scratch() {
    if let Ok(rd) = std::fs::read_dir("/dev/shm") {
        for e in rd.flatten() {
            let name = e.file_name().to_string_lossy().to_string();
            if let Some(pid) = name.strip_prefix("clarabel-verif-sim-") {
                if !std::path::Path::new(&format!("/proc/{}", pid)).exists() {
                    std::fs::remove_dir_all(e.path()).ok();
                }
            }
        }
    }
}

fn run_main(args: &[String]) -> i32 {
    sweep_stale_scratch();
    let prop = find_prop(&args[0]);
    let mut tier = std::env::var("VERIF_TIER")
        .map(|t| Tier::parse(&t))
        .unwrap_or(Tier::Quick);
    let mut seed: u64 = std::env::var("VERIF_SEED")
        .ok()
        .and_then(|s| s.parse().ok())
        .unwrap_or(DEFAULT_SEED);
    let mut workers: u64 = std::thread::available_parallelism()
        .map(|n| n.get() as u64)
        .unwrap_or(8)
        .min(16);
    let mut runs: Option<u64> = None;
    let mut i = 1;
    while i < args.len() {
        match args[i].as_str() {
            "--tier" => {
                tier = Tier::parse(&args[i + 1]);
                i += 1;
            }
            "--seed" => {
                seed = args[i + 1].parse().unwrap_or(seed);
                i += 1;
            }
            "--workers" => {
                workers = args[i + 1].parse().unwrap_or(workers);
                i += 1;
            }
            "--runs" => {
                runs = args[i + 1].parse().ok();
                i += 1;
            }
            _ => {}
        }
        i += 1;
    }
    let total = runs.unwrap_or(match tier {
        Tier::Quick => prop.quick_runs,
        Tier::Thorough => prop.thorough_runs,
    });
    println!(
        "sim: property={} tier={} VERIF_SEED={} runs={} workers={}",
        prop.id,
        tier.name(),
        seed,
        total,
        workers
    );
    let t0 = Instant::now();
    let batch = run_batch(&prop, tier, seed, total, workers, 1);
    // determinism self-check: re-execute 5% of the indices in other worker processes
    // (C05's reproducibility clause is decided by this re-check: 25 % there)
    let every: u64 = if prop.id == "C05" { 4 } else { 20 };
    let recheck_n = (total / every).max(1).min(total);
    let w2 = if workers > 3 { workers - 3 } else { 1 };
    let batch2 = run_batch(&prop, tier, seed, recheck_n, w2, every);
    let wall = t0.elapsed().as_secs_f64();

    let mut hash_by_idx: BTreeMap<u64, String> = BTreeMap::new();
    let mut rhash_by_idx: BTreeMap<u64, String> = BTreeMap::new();
    for r in &batch.results {
        hash_by_idx.insert(
            r["idx"].as_u64().unwrap(),
            r["hash"].as_str().unwrap_or("").to_string(),
        );
        rhash_by_idx.insert(
            r["idx"].as_u64().unwrap(),
            r["rhash"].as_str().unwrap_or("").to_string(),
        );
    }
    let mut mismatches = 0u64;
    let mut rechecked = 0u64;
    let mut mismatch_at: Vec<(u64, String, String)> = vec![];
    for r in &batch2.results {
        let idx = r["idx"].as_u64().unwrap();
        if let Some(h) = hash_by_idx.get(&idx) {
            rechecked += 1;
            let h2 = r["hash"].as_str().unwrap_or("");
            if h != h2 {
                mismatches += 1;
                eprintln!("determinism mismatch at run {}", idx);
                mismatch_at.push((
                    idx,
                    rhash_by_idx.get(&idx).cloned().unwrap_or_default(),
                    r["rhash"].as_str().unwrap_or("").to_string(),
                ));
            }
        }
    }
    // C05: "repeating an identical call is bit-for-bit reproducible" - the re-execution in
    // another process, after a different history of earlier runs, is that clause.  A
    // mismatch is triaged into a replayable sequence of runs.
    let mut repro_violations: Vec<(u64, String, String, Value)> = vec![];
    if prop.id == "C05" && !mismatch_at.is_empty() {
        // those whose returned results differ between the two workers first
        mismatch_at.sort_by_key(|(idx, r1, r2)| (r1 == r2, *idx));
        for (idx, h1, h2) in mismatch_at.iter().take(3) {
            if let Some(v) = triage_mismatch(&prop, tier, seed, *idx, h1, h2, workers, w2 * every) {
                repro_violations.push(v);
                if repro_violations.len() >= 2 {
                    break;
                }
            }
        }
        if !repro_violations.is_empty() {
            // explained as property violations, not as a defect of the harness
            mismatches = 0;
        }
    }

    // aggregate
    let known = load_known(prop.id);
    let mut evaluations = 0u64;
    let mut shapes_nontrivial: BTreeSet<String> = BTreeSet::new();
    let mut shapes_all: BTreeSet<String> = BTreeSet::new();
    let mut probes: BTreeMap<String, u64> = BTreeMap::new();
    let mut sink: BTreeMap<String, u64> = BTreeMap::new();
    let mut events = 0u64;
    let mut reads = 0u64;
    let mut sim_ns = 0u128;
    let mut switches = 0u64;
    let mut samples: Vec<Value> = vec![];
    let mut harness_errors: Vec<String> = vec![];
    let mut new_violations: Vec<(u64, String, String, Value)> = vec![];
    let mut known_hits: BTreeMap<String, (u64, String)> = BTreeMap::new();
    for r in &batch.results {
        evaluations += 1;
        let shape = r["shape"].as_str().unwrap_or("").to_string();
        if r["nontrivial"].as_bool().unwrap_or(false) {
            shapes_nontrivial.insert(shape.clone());
        }
        shapes_all.insert(shape);
        events += r["events"].as_u64().unwrap_or(0);
        reads += r["reads"].as_u64().unwrap_or(0);
        sim_ns += r["sim_ns"].as_u64().unwrap_or(0) as u128;
        switches += r["switches"].as_u64().unwrap_or(0);
        if let Some(m) = r["probes"].as_object() {
            for (k, v) in m {
                *probes.entry(k.clone()).or_insert(0) += v.as_u64().unwrap_or(0);
            }
        }
        if let Some(m) = r["sink"].as_object() {
            for (k, v) in m {
                *sink.entry(k.clone()).or_insert(0) += v.as_u64().unwrap_or(0);
            }
        }
        if let Some(s) = r.get("summary").and_then(|s| s.as_str()) {
            if samples.len() < 12 && !s.is_empty() {
                samples.push(json!({"run": r["idx"], "case": s}));
            }
        }
        if let Some(e) = r.get("harness_error").and_then(|s| s.as_str()) {
            harness_errors.push(format!("run {}: {}", r["idx"], e));
        }
        if let Some(vs) = r.get("violations").and_then(|v| v.as_array()) {
            let idx = r["idx"].as_u64().unwrap();
            // a run counts as known only if every violation in it is a listed finding
            let mut unknown: Option<(String, String)> = None;
            for v in vs {
                let class = v["class"].as_str().unwrap_or("").to_string();
                let key = v["key"].as_str().unwrap_or("").to_string();
                if let Some(k) = known
                    .iter()
                    .find(|k| k.class == class && (k.key == key || k.key == "*"))
                {
                    let e = known_hits
                        .entry(k.text.clone())
                        .or_insert((0, v["detail"].as_str().unwrap_or("").to_string()));
                    e.0 += 1;
                } else if unknown.is_none() {
                    unknown = Some((class, v["detail"].as_str().unwrap_or("").to_string()));
                }
            }
            if let Some((class, detail)) = unknown {
                new_violations.push((idx, class, detail, r.clone()));
            }
        }
    }
    let n_repro = mismatch_at.len() as u64;
    for v in repro_violations {
        new_violations.push(v);
    }
    for (idx, how) in &batch.aborted {
        if *idx == u64::MAX {
            harness_errors.push(format!("worker died outside a run: {}", how));
        } else {
            let v = json!({"violations":[{"class": format!("{}.abort", prop.id), "key":"", "detail": format!("worker process died during this run: {}", how)}], "choices": Value::Null});
            new_violations.push((
                *idx,
                format!("{}.abort", prop.id),
                format!("worker process died: {}", how),
                v,
            ));
        }
    }
    if evaluations + (batch.aborted.len() as u64) < total {
        harness_errors.push(format!(
            "only {} of {} runs reported",
            evaluations, total
        ));
    }
    if mismatches > 0 {
        harness_errors.push(format!(
            "{} of {} re-executed runs produced a different event log",
            mismatches, rechecked
        ));
    }

    // report
    let mut exit = 0;
    for (text, (n, detail)) in &known_hits {
        println!(
            "KNOWN-FINDING: property={} {} (seen in {} runs; e.g. {})",
            prop.id,
            text.trim_start_matches("finding:")
                .trim()
                .trim_start_matches(&format!("property={}", prop.id))
                .trim(),
            n,
            detail
        );
    }
    // one replay file per distinct class (first occurrence), all counted
    let mut by_class: BTreeMap<String, u64> = BTreeMap::new();
    let mut replay_paths = vec![];
    for (idx, class, detail, v) in &new_violations {
        let c = by_class.entry(class.clone()).or_insert(0);
        *c += 1;
        if *c == 1 {
            let path = write_replay(&prop, tier, seed, *idx, class, v);
            println!("VIOLATION property={} replay={}", prop.id, path);
            println!("  class={} run={} detail={}", class, idx, detail);
            replay_paths.push(path);
            exit = 1;
        }
    }
    for (class, n) in &by_class {
        println!("  violation class {} in {} runs", class, n);
    }

    // evidence
    let runs_per_hour = if wall > 0.0 {
        (evaluations as f64 + rechecked as f64) / wall * 3600.0
    } else {
        0.0
    };
    let ev = json!({
        "property_id": prop.id,
        "tier": tier.name(),
        "seed": seed,
        "level": prop.level,
        "coverage": {
            "evaluations": evaluations,
            "distinct_nontrivial": shapes_nontrivial.len(),
            "rule": prop.rule,
            "samples": samples,
            "distinct_event_shapes_all_runs": shapes_all.len(),
            "simulated_runs_per_hour": runs_per_hour,
            "events_logged": events,
            "clock_reads": reads,
            "simulated_time_s": (sim_ns as f64) * 1e-9,
            "thread_switches": switches,
            "sink_faults_fired": sink,
            "probes": probes,
            "determinism_recheck": {"runs_reexecuted_in_other_processes": rechecked, "event_log_hash_mismatches": mismatches.max(if prop.id == "C05" { n_repro } else { 0 })},
            "known_findings_seen": known_hits.iter().map(|(k,(n,_))| json!({"finding": k, "runs": n})).collect::<Vec<_>>(),
            "violation_classes": by_class,
            "replay_files": replay_paths,
            "components_real": ["clarabel crate (default features) built from /repo working tree with --cfg clarabel_verif: solver loop, cones, equilibration, presolve, KKT assembly, qdldl, Timers, PrintTarget, json.rs, infbounds.rs", "serde_json", "OS files/pipes where used"],
            "components_stubbed": ["std::time::Instant (simulated clock)", "user Write object (SimWriter)", "disk between save and load (fault function)", "OS scheduler (baton)"],
            "exhaustive": false
        },
        "assumptions": prop.assumptions,
        "wall_s": wall,
        "violations": new_violations.len()
    });
    let evdir = format!("{}/evidence", verif_root());
    std::fs::create_dir_all(&evdir).ok();
    let evpath = format!("{}/{}.json", evdir, prop.id);
    if let Err(e) = std::fs::write(&evpath, serde_json::to_string_pretty(&ev).unwrap()) {
        eprintln!("cannot write evidence: {}", e);
        return 2;
    }
    println!(
        "sim: {} runs ({} distinct non-trivial shapes), {:.1}s wall, {:.0} runs/hour, {} violations, {} known-finding runs, determinism {}/{} ok",
        evaluations,
        shapes_nontrivial.len(),
        wall,
        runs_per_hour,
        new_violations.len(),
        known_hits.values().map(|v| v.0).sum::<u64>(),
        rechecked - mismatches,
        rechecked
    );
    if !harness_errors.is_empty() {
        for e in harness_errors.iter().take(10) {
            eprintln!("HARNESS ERROR: {}", e);
        }
        if exit == 0 {
            return 2;
        }
    }
    exit
}

// ------------------------------------------------------------------
// replay
// ------------------------------------------------------------------

fn replay_main(args: &[String]) -> i32 {
    let path = &args[0];
    let show_log = args.iter().any(|a| a == "--log");
    let body: Value = match std::fs::read_to_string(path)
        .ok()
        .and_then(|s| serde_json::from_str(&s).ok())
    {
        Some(v) => v,
        None => {
            eprintln!("cannot read replay file {}", path);
            return 2;
        }
    };
    let prop = find_prop(body["property"].as_str().unwrap_or(""));
    let tier = Tier::parse(body["tier"].as_str().unwrap_or("quick"));
    let class = body["class"].as_str().unwrap_or("").to_string();
    if let Some(seq) = body["sequence"].as_array() {
        // a process-history violation: the last run of the sequence, alone and after the others
        let seed = body["seed"].as_u64().unwrap_or(DEFAULT_SEED);
        let seq: Vec<u64> = seq.iter().filter_map(|v| v.as_u64()).collect();
        let Some(&last) = seq.last() else { return 2 };
        let alone = seq_rhash(&prop, tier, seed, &[last]).unwrap_or_default();
        let after = seq_rhash(&prop, tier, seed, &seq).unwrap_or_default();
        println!("run {} alone in a fresh process : result hash {}", last, alone);
        println!("run {} after runs {:?} : result hash {}", last, &seq[..seq.len() - 1], after);
        println!("recorded: fresh {} history {}", body["fresh_hash"], body["history_hash"]);
        if alone != after || seq.len() == 1 && body["fresh_hash"] != body["history_hash"] {
            println!("VIOLATION property={} replay={}", prop.id, path);
            println!("  class={} (reproduced)", class);
            return 1;
        }
        println!("replay did not reproduce class {}", class);
        return 0;
    }
    if class.ends_with(".abort") && !body["choices"].is_array() {
        // the worker died or hung inside this run: re-execute it in a child under a time limit
        let seed = body["seed"].as_u64().unwrap_or(DEFAULT_SEED);
        let idx = body["run"].as_u64().unwrap_or(0);
        let exe = std::env::current_exe().expect("current_exe");
        let mut child = Command::new(exe)
            .arg("seq")
            .arg(prop.id)
            .arg(tier.name())
            .arg(seed.to_string())
            .arg(idx.to_string())
            .stdout(Stdio::null())
            .stderr(Stdio::null())
            .spawn()
            .expect("spawn");
        let t0 = Instant::now();
        let limit = std::time::Duration::from_secs(if tier == Tier::Quick { 120 } else { 600 });
        let outcome = loop {
            match child.try_wait() {
                Ok(Some(st)) if st.success() => break None,
                Ok(Some(st)) => break Some(format!("the run ends the process: {:?}", st)),
                Ok(None) if t0.elapsed() > limit => {
                    let _ = child.kill();
                    let _ = child.wait();
                    break Some(format!("the run does not return within {} s (hang)", limit.as_secs()));
                }
                Ok(None) => std::thread::sleep(std::time::Duration::from_millis(200)),
                Err(e) => break Some(format!("wait failed: {}", e)),
            }
        };
        return match outcome {
            Some(how) => {
                println!("violation class={} detail={}", class, how);
                println!("VIOLATION property={} replay={}", prop.id, path);
                1
            }
            None => {
                println!("replay did not reproduce class {} (the run returned)", class);
                0
            }
        };
    }
    std::panic::set_hook(Box::new(|_| {}));
    let cs = if body["choices"].is_array() {
        ChoiceStream::replay(choices_from_json(&body["choices"]))
    } else {
        let seed = body["seed"].as_u64().unwrap_or(DEFAULT_SEED);
        let idx = body["run"].as_u64().unwrap_or(0);
        ChoiceStream::search(run_seed(seed, &prop, idx))
    };
    let (r, sim) = execute(&prop, tier, cs);
    if show_log {
        for e in &sim.log {
            println!("{}", e.render());
        }
    }
    println!("event-log hash {:016x} ({} events)", sim.hash, sim.log.len());
    if let Some(h) = body["min_hash"].as_str() {
        println!(
            "recorded hash   {} -> {}",
            h,
            if h == format!("{:016x}", sim.hash) {
                "identical"
            } else {
                "DIFFERENT"
            }
        );
    }
    match r {
        Err(e) => {
            eprintln!("harness error during replay: {}", e);
            2
        }
        Ok(out) => {
            for v in &out.violations {
                println!("violation class={} key={} detail={}", v.class, v.key, v.detail);
            }
            if out.violations.iter().any(|v| v.class == class) {
                println!("VIOLATION property={} replay={}", prop.id, path);
                1
            } else {
                println!("replay did not reproduce class {}", class);
                0
            }
        }
    }
}

fn main() {
    let args: Vec<String> = std::env::args().collect();
    if args.len() < 3 {
        eprintln!("usage: sim run <PROP> [--tier T] | sim replay <file> | sim worker ...");
        std::process::exit(2);
    }
    let code = match args[1].as_str() {
        "run" => run_main(&args[2..]),
        "worker" => {
            worker_main(&args[2..]);
            0
        }
        "replay" => replay_main(&args[2..]),
        "seq" => seq_main(&args[2..]),
        "c20-stdout" => {
            // child of a C20 run: replays the given choices with stdout as print target
            std::panic::set_hook(Box::new(|_| {}));
            let list: Value = std::fs::read_to_string(&args[2])
                .ok()
                .and_then(|s| serde_json::from_str(&s).ok())
                .unwrap_or(Value::Null);
            let prop = find_prop("C20");
            let tier = Tier::parse(args.get(3).map(|s| s.as_str()).unwrap_or("quick"));
            let _ = execute(&prop, tier, ChoiceStream::replay(choices_from_json(&list)));
            2 // not reached when the scenario exits by itself
        }
        _ => 2,
    };
    // this process' scratch directory (workers remove theirs too; a killed one is
    // swept by the next parent)
    std::fs::remove_dir_all(format!("/dev/shm/clarabel-verif-sim-{}", std::process::id())).ok();
    std::process::exit(code);
}
