//! Reference model R1: timer accounting derived from label events and clock
//! values only.  It does not depend on the *names* of the timers: the "solve
//! root" is whatever root-level timer is running when iteration boundaries
//! occur, and the model gives it a fresh account at every solve() invoke.
//!
//! For each solver object (label events between the invoke/return of a call
//! on solver `sid`, on one simulated thread) and each root timer we keep
//!   lo : simulated time that certainly elapsed inside that running timer
//!        and outside print spans;
//!   hi : lo + every delta that landed on a clock read *inside* a suspend or
//!        resume operation (whose accounting the property does not fix).
//! Print-span time (a blocked sink) is carried separately on the clock event
//! and belongs to neither, wherever the read that observes it falls; the
//! remainder of the first read of a resume operation is in neither as well.
//!
//! Whether the solver went on past an iteration boundary is read off the first
//! scheduling point (`Event::Yield`, logged once per iteration record) after it:
//! those sit inside the numerical work of an iteration, so the answer does not
//! depend on which timers exist or on whether the implementation prints.

use crate::simcore::{Ev, EvKind};
use clarabel::verif::Event as Label;
use std::collections::BTreeMap;

#[derive(Clone, Debug)]
pub struct Boundary {
    /// iteration counter carried by the boundary event
    pub iter: u32,
    /// certain time of the solve root since this solve() began, at the boundary event
    pub t_lo: u64,
    /// upper bound on any time the implementation could have attributed to
    /// this solver when it decided to continue/stop at this boundary
    pub t_hi: u64,
    pub ev_index: usize,
    /// number of clock reads (of this thread) before the boundary event
    pub clock_idx: u64,
    /// the solver reached a scheduling point inside the numerical work of an iteration
    /// (residual update, cone scaling, KKT update/solve, step) after this boundary, i.e. no
    /// verdict ended the solve *at* the boundary.  Independent of timers and print spans.
    pub proceeded: bool,
    #[allow(dead_code)]
    depth: usize,
    /// the status line of this boundary has been printed (its print span is over), so
    /// whatever timer starts or stops next reflects the solver's decision here
    decided: bool,
}

#[derive(Clone, Debug, Default)]
pub struct SolveTrace {
    pub sid: u32,
    pub th: u8,
    pub ev_begin: usize,
    pub ev_end: usize,
    pub boundaries: Vec<Boundary>,
    /// accumulators at the return of solve()
    pub t_lo_end: u64,
    pub t_hi_end: u64,
    pub reads: u64,
    pub first_read_idx: u64,
    pub print_spans: u64,
    /// number of reads that fell in each class (lo, hi-only, print, outside)
    pub class_counts: [u64; 4],
    pub returned: bool,
}

#[derive(Default)]
struct PerSolver {
    stack: Vec<&'static str>,
    pending_start: Option<&'static str>,
    in_suspend: bool,
    in_resume: bool,
    op_reads: u32,
    lo: BTreeMap<&'static str, u64>,
    hi: BTreeMap<&'static str, u64>,
    // state of the solve() call in progress
    snap_lo: BTreeMap<&'static str, u64>,
    snap_hi: BTreeMap<&'static str, u64>,
    solve_root: Option<&'static str>,
}

impl PerSolver {
    /// certain time of the solve root since this solve() began
    fn t_lo(&self) -> u64 {
        match self.solve_root {
            Some(r) => self.lo.get(r).unwrap_or(&0) - self.snap_lo.get(r).unwrap_or(&0),
            None => 0,
        }
    }
    /// everything that could be attributed to this solver object: all roots, except
    /// what the solve root had accumulated before this solve() began
    fn t_hi(&self) -> u64 {
        let mut t = 0;
        for (k, v) in &self.hi {
            t += v;
            if Some(*k) == self.solve_root {
                t -= self.snap_hi.get(k).unwrap_or(&0);
            }
        }
        t
    }
}

/// Analyse the whole log; returns one trace per solve() call, in log order.
pub fn analyse(log: &[Ev]) -> Vec<SolveTrace> {
    let mut solvers: BTreeMap<(u8, u32), PerSolver> = BTreeMap::new();
    // current call per thread: (sid, op)
    let mut current: BTreeMap<u8, (u32, &'static str)> = BTreeMap::new();
    let mut open: BTreeMap<u8, SolveTrace> = BTreeMap::new();
    let mut reads_per_thread: BTreeMap<u8, u64> = BTreeMap::new();
    let mut out = vec![];

    for (i, ev) in log.iter().enumerate() {
        let th = ev.th;
        match &ev.kind {
            EvKind::Call { sid, op, ret, .. } => {
                if !*ret {
                    current.insert(th, (*sid, op));
                    if *op == "solve" {
                        let ps = solvers.entry((th, *sid)).or_default();
                        ps.snap_lo = ps.lo.clone();
                        ps.snap_hi = ps.hi.clone();
                        ps.solve_root = None;
                        let t = SolveTrace {
                            sid: *sid,
                            th,
                            ev_begin: i,
                            first_read_idx: *reads_per_thread.get(&th).unwrap_or(&0),
                            ..Default::default()
                        };
                        open.insert(th, t);
                    }
                } else {
                    if *op == "solve" {
                        if let Some(mut t) = open.remove(&th) {
                            let ps = solvers.entry((th, *sid)).or_default();
                            t.ev_end = i;
                            t.t_lo_end = ps.t_lo();
                            t.t_hi_end = ps.t_hi();
                            t.returned = true;
                            // a call that unwound leaves the timer stack dirty
                            ps.stack.clear();
                            ps.pending_start = None;
                            ps.in_suspend = false;
                            ps.in_resume = false;
                            out.push(t);
                        }
                    }
                    current.remove(&th);
                }
            }
            EvKind::Label(l) => {
                let Some((sid, _)) = current.get(&th).copied() else {
                    continue;
                };
                let ps = solvers.entry((th, sid)).or_default();
                match l {
                    Label::TimerStart(k) => {
                        // the hi bound for the previous boundary is fixed when
                        // the solver commits to continuing
                        // timers started between the boundary record and the end of its
                        // print span (e.g. one wrapped around the bookkeeping itself) say
                        // nothing about the decision
                        fix_hi(&mut open, th, ps);
                        ps.pending_start = Some(k);
                    }
                    Label::TimerStop => {
                        fix_hi(&mut open, th, ps);
                        ps.stack.pop();
                    }
                    Label::TimerReset(_) => {}
                    Label::SuspendBegin => {
                        ps.in_suspend = true;
                        ps.op_reads = 0;
                    }
                    Label::SuspendEnd => ps.in_suspend = false,
                    Label::ResumeBegin => {
                        ps.in_resume = true;
                        ps.op_reads = 0;
                        if let Some(t) = open.get_mut(&th) {
                            t.print_spans += 1;
                        }
                    }
                    Label::ResumeEnd => {
                        ps.in_resume = false;
                        if let Some(t) = open.get_mut(&th) {
                            if let Some(b) = t.boundaries.last_mut() {
                                b.decided = true;
                            }
                        }
                    }
                    Label::Iteration(it) => {
                        force_fix_hi(&mut open, th, ps);
                        // a boundary is an iteration record made while timers are running
                        // (the extra record after the loop is made with all timers stopped)
                        if !ps.stack.is_empty() {
                            if ps.solve_root.is_none() {
                                ps.solve_root = Some(ps.stack[0]);
                            }
                            if let Some(t) = open.get_mut(&th) {
                                t.boundaries.push(Boundary {
                                    iter: *it,
                                    t_lo: ps.t_lo(),
                                    t_hi: u64::MAX, // fixed later
                                    ev_index: i,
                                    clock_idx: *reads_per_thread.get(&th).unwrap_or(&0),
                                    proceeded: false,
                                    depth: ps.stack.len(),
                                    decided: false,
                                });
                            }
                        }
                    }
                    Label::Yield => {
                        // a scheduling point sits inside the numerical work of an iteration
                        // (cone scaling, KKT update/solve, step): whatever the timers and the
                        // print spans look like, the solver has gone on past the last boundary
                        force_fix_hi(&mut open, th, ps);
                        if let Some(t) = open.get_mut(&th) {
                            if let Some(b) = t.boundaries.last_mut() {
                                b.proceeded = true;
                            }
                        }
                    }
                    _ => {}
                }
            }
            EvKind::Clock { delta, stall, .. } => {
                // print-span time is known to the simulator by construction; it belongs
                // to no timer wherever the read that observes it happens to be
                let delta = *delta - *stall;
                *reads_per_thread.entry(th).or_insert(0) += 1;
                let Some((sid, _)) = current.get(&th).copied() else {
                    continue;
                };
                let ps = solvers.entry((th, sid)).or_default();
                // classify with the state *before* this read takes effect
                let root = ps.stack.first().copied();
                let class = if ps.in_resume && ps.op_reads == 0 && root.is_some() {
                    2 // print span
                } else if root.is_none() {
                    3 // outside any timer
                } else if (ps.in_suspend && ps.op_reads > 0) || (ps.in_resume && ps.op_reads > 0) {
                    1 // hi only
                } else {
                    0
                };
                if ps.in_suspend || ps.in_resume {
                    ps.op_reads += 1;
                }
                if let Some(r) = root {
                    match class {
                        0 => {
                            *ps.lo.entry(r).or_insert(0) += delta;
                            *ps.hi.entry(r).or_insert(0) += delta;
                        }
                        1 => {
                            *ps.hi.entry(r).or_insert(0) += delta;
                        }
                        _ => {}
                    }
                }
                if let Some(t) = open.get_mut(&th) {
                    t.reads += 1;
                    t.class_counts[class] += 1;
                }
                if let Some(k) = ps.pending_start.take() {
                    ps.stack.push(k);
                }
            }
            _ => {}
        }
    }
    // calls that never returned (panic unwound past the harness marker)
    for (_, t) in open {
        out.push(t);
    }
    out
}

/// the hi bound of the last boundary is fixed at the first timer event after its print
/// span (or, if the implementation prints outside any suspend/resume, at the next boundary)
fn fix_hi(open: &mut BTreeMap<u8, SolveTrace>, th: u8, ps: &PerSolver) {
    if let Some(t) = open.get_mut(&th) {
        if let Some(b) = t.boundaries.last_mut() {
            if b.t_hi == u64::MAX && b.decided {
                b.t_hi = ps.t_hi();
            }
        }
    }
}

fn force_fix_hi(open: &mut BTreeMap<u8, SolveTrace>, th: u8, ps: &PerSolver) {
    if let Some(t) = open.get_mut(&th) {
        if let Some(b) = t.boundaries.last_mut() {
            if b.t_hi == u64::MAX {
                b.t_hi = ps.t_hi();
            }
        }
    }
}
