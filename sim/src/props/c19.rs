//! C19 — JSON save/load under disk and descriptor faults.
//!
//! The solver really writes to / reads from files; between save_to_file and
//! load_from_file the simulator is the disk: it truncates, flips, substitutes,
//! zeroes sectors, duplicates tails and loses writes, and hands the solver file
//! descriptors that fail (/dev/full, read-only, write-only, directory, pipe
//! with short reads, handle not rewound).

use crate::gen::*;
use crate::harness::*;
use crate::refmath::*;
use crate::simcore::*;
use crate::Tier;
use clarabel::io::ConfigurablePrintTarget;
use clarabel::solver::{DefaultSettings, DefaultSolver, IPSolver, SolverJSONReadWrite};
use serde_json::Value;
use std::fs::{File, OpenOptions};
use std::io::{Read, Seek, SeekFrom, Write};
use std::panic::{catch_unwind, AssertUnwindSafe};

fn work_file(name: &str) -> String {
    format!("{}/{}", crate::scratch_dir(), name)
}

pub enum LoadOutcome {
    Ok(Box<DefaultSolver<f64>>),
    Err(String),
    Panic(String),
}

fn load_file(f: &mut File, settings: Option<DefaultSettings<f64>>) -> LoadOutcome {
    let r = catch_unwind(AssertUnwindSafe(|| DefaultSolver::<f64>::load_from_file(f, settings)));
    match r {
        Ok(Ok(s)) => LoadOutcome::Ok(Box::new(s)),
        Ok(Err(e)) => LoadOutcome::Err(format!("{}", e)),
        Err(p) => LoadOutcome::Panic(crate::panic_message(&p)),
    }
}

fn load_bytes(path: &str, bytes: &[u8]) -> LoadOutcome {
    std::fs::write(path, bytes).expect("write work file");
    let mut f = File::open(path).expect("open work file");
    load_file(&mut f, None)
}

/// a loaded solver must be a usable solver: solve returns, terminal status
fn exercise(mut s: Box<DefaultSolver<f64>>) -> Result<Snap, String> {
    s.print_to_sink();
    s.settings.max_iter = s.settings.max_iter.min(60);
    s.settings.time_limit = f64::INFINITY;
    let r = catch_unwind(AssertUnwindSafe(|| s.solve()));
    match r {
        Ok(()) => Ok(Snap::of(&s)),
        Err(p) => Err(crate::panic_message(&p)),
    }
}

const HOSTILE: [u8; 11] = [b'0', b'9', b',', b']', b'}', b'"', b'-', b'e', b'.', b' ', 0];

#[derive(Clone, Debug)]
pub enum DiskFault {
    Truncate(usize),
    BitFlip(usize, u8),
    Subst(usize, u8),
    ZeroSector(usize, usize),
    DupTail(usize),
    Lost,
}

fn apply(bytes: &[u8], f: &DiskFault) -> Vec<u8> {
    let mut v = bytes.to_vec();
    match f {
        DiskFault::Truncate(k) => v.truncate(*k),
        DiskFault::BitFlip(p, b) => v[*p] ^= 1 << b,
        DiskFault::Subst(p, c) => v[*p] = *c,
        DiskFault::ZeroSector(s, l) => {
            let end = (s + l).min(v.len());
            for x in &mut v[*s..end] {
                *x = 0;
            }
        }
        DiskFault::DupTail(k) => {
            let tail = v[v.len() - k..].to_vec();
            v.extend(tail);
        }
        DiskFault::Lost => v.clear(),
    }
    v
}

fn kind_name(f: &DiskFault) -> &'static str {
    match f {
        DiskFault::Truncate(_) => "c19_fault_truncate",
        DiskFault::BitFlip(_, _) => "c19_fault_bitflip",
        DiskFault::Subst(_, _) => "c19_fault_subst",
        DiskFault::ZeroSector(_, _) => "c19_fault_zero_sector",
        DiskFault::DupTail(_) => "c19_fault_dup_tail",
        DiskFault::Lost => "c19_fault_lost_write",
    }
}

/// If original and corrupted documents differ in exactly one finite number
/// inside "q" or "b", return (which, index, new value).
fn single_literal_change(orig: &Value, cor: &Value) -> Option<(&'static str, usize, f64)> {
    let (o, c) = (orig.as_object()?, cor.as_object()?);
    if o.len() != c.len() {
        return None;
    }
    let mut found = None;
    for (k, ov) in o {
        let cv = c.get(k)?;
        if ov == cv {
            continue;
        }
        if k != "q" && k != "b" {
            return None;
        }
        let (oa, ca) = (ov.as_array()?, cv.as_array()?);
        if oa.len() != ca.len() {
            return None;
        }
        for (i, (x, y)) in oa.iter().zip(ca).enumerate() {
            if x != y {
                if found.is_some() {
                    return None;
                }
                let v = y.as_f64()?;
                if !v.is_finite() || !y.is_number() {
                    return None;
                }
                found = Some((if k == "q" { "q" } else { "b" }, i, v));
            }
        }
    }
    found
}

/// byte offsets of the ASCII digits inside `"m":`, `"n":`, `"colptr":[..]`, `"rowval":[..]`
/// and the `"cones":[..]` section of a saved problem
fn structural_digits(bytes: &[u8]) -> Vec<usize> {
    let text = String::from_utf8_lossy(bytes);
    let mut out = vec![];
    for key in ["\"m\":", "\"n\":", "\"colptr\":[", "\"rowval\":[", "\"cones\":["] {
        let mut from = 0;
        while let Some(off) = text[from..].find(key) {
            let start = from + off + key.len();
            let mut k = start;
            let mut depth = if key.ends_with('[') { 1 } else { 0 };
            while k < bytes.len() {
                let c = bytes[k];
                if c == b'[' {
                    depth += 1;
                } else if c == b']' {
                    if depth <= 1 {
                        break;
                    }
                    depth -= 1;
                } else if depth == 0 && !c.is_ascii_digit() {
                    break;
                }
                if c.is_ascii_digit() {
                    out.push(k);
                }
                k += 1;
            }
            from = start;
        }
    }
    out.sort();
    out.dedup();
    out
}

/// same document except (possibly) inside "settings", which must still be an object
/// with the same keys and value types (a well-formed settings block)
fn differs_only_in_settings(orig: &Value, cor: &Value) -> bool {
    let (Some(o), Some(c)) = (orig.as_object(), cor.as_object()) else {
        return false;
    };
    if o.len() != c.len() {
        return false;
    }
    for (k, ov) in o {
        let Some(cv) = c.get(k) else { return false };
        if k == "settings" {
            let (Some(os), Some(cs)) = (ov.as_object(), cv.as_object()) else {
                return false;
            };
            if os.len() != cs.len() || ov == cv {
                return false;
            }
            for (sk, sv) in os {
                match cs.get(sk) {
                    Some(x) => {
                        let same_type = (sv.is_boolean() && x.is_boolean())
                            || (sv.is_string() && x.is_string())
                            || (sv.is_u64() && x.is_u64())
                            || (sv.is_f64() && x.is_number() && x.as_f64().map(|v| v.is_finite()).unwrap_or(false));
                        if !same_type {
                            return false;
                        }
                    }
                    None => return false,
                }
            }
        } else if ov != cv {
            return false;
        }
    }
    true
}

fn mat_from_json(v: &Value) -> Option<Mat> {
    Some(Mat {
        m: v.get("m")?.as_u64()? as usize,
        n: v.get("n")?.as_u64()? as usize,
        colptr: v.get("colptr")?.as_array()?.iter().map(|x| x.as_u64().unwrap_or(0) as usize).collect(),
        rowval: v.get("rowval")?.as_array()?.iter().map(|x| x.as_u64().unwrap_or(0) as usize).collect(),
        nzval: v.get("nzval")?.as_array()?.iter().map(|x| x.as_f64().unwrap_or(f64::NAN)).collect(),
    })
}

fn vec_from_json(v: &Value) -> Option<Vec<f64>> {
    Some(v.as_array()?.iter().map(|x| x.as_f64().unwrap_or(f64::NAN)).collect())
}

fn close_vec(a: &[f64], b: &[f64], max_ulps: u64) -> Option<String> {
    if a.len() != b.len() {
        return Some(format!("length {} vs {}", a.len(), b.len()));
    }
    for i in 0..a.len() {
        if ulps(a[i], b[i]) > max_ulps {
            return Some(format!("entry {}: {:e} vs {:e}", i, a[i], b[i]));
        }
    }
    None
}

pub fn run(tier: Tier) -> RunOutcome {
    let mut out = RunOutcome::default();
    let mut opts = GenOpts::quick();
    if tier == Tier::Thorough {
        opts.nmax = 8;
    }
    let mut prob = with_sim(|s| gen_problem(&mut s.cs, &opts));
    let mut settings = with_sim(|s| gen_settings(&mut s.cs, false));
    // settings values that must survive the round trip
    match choose("tl", 7) {
        1 => settings.time_limit = 1.5,
        2 => settings.time_limit = 1e-3,
        // extreme but finite values must survive too (f64::MAX itself is the
        // file format's stand-in for "infinite" and is not used here)
        3 => settings.time_limit = f64::from_bits(f64::MAX.to_bits() - 1),
        4 => settings.time_limit = 1.79e308,
        5 => settings.time_limit = 1e300,
        6 => settings.time_limit = f64::MIN_POSITIVE,
        _ => {} // infinite
    }
    settings.max_iter = [60, 200, 7][choose("mi", 3) as usize];
    settings.verbose = flag("verbose_setting");
    // the fields gen_settings never varies (what mut_118 showed): every stored field has
    // to come back, also those that do not change how this build solves
    match choose("rest", 12) {
        1 => settings.max_threads = 1,
        2 => settings.max_threads = 2,
        3 => settings.max_threads = 7,
        4 => settings.tol_infeas_abs = 1e-7,
        5 => settings.tol_ktratio = 1e-5,
        6 => settings.reduced_tol_infeas_abs = 1e-4,
        7 => settings.reduced_tol_infeas_rel = 1e-4,
        8 => settings.reduced_tol_ktratio = 1e-3,
        9 => settings.min_switch_step_length = 0.2,
        _ => {}
    }
    let bound = with_sim(|s| s.inf_model);
    if chance("infb", 1, 5) {
        crate::props::c20::plant_infinite_bounds(&mut prob, bound, false);
    }
    let mut eff = effective(&prob, bound, settings.presolve_enable);
    with_sim(|s| s.clocks[0] = Clock::new(ClockProfile::fine(5)));
    api(format!("problem {}", prob.describe()));
    api(format!("settings {}", describe_settings(&settings)));

    let Ok(mut solver) = sv_new(1, &prob, settings.clone()) else {
        probe("c19_panic_skipped");
        return out;
    };
    solver.print_to_sink();
    let solved_first = flag("solve_before_save");
    if solved_first && sv_solve(1, &mut solver).is_err() {
        probe("c19_panic_skipped");
        return out;
    }

    // "the problem that solver was solving" includes accepted in-place updates
    if eff.n_dropped == 0 && chance("update_before_save", 1, 3) {
        let nupd = 1 + choose("nupd", 2);
        for _ in 0..nupd {
            let which = choose("upd_part", 4);
            let indexed = flag("upd_indexed");
            let bump = |v: &[f64]| -> Vec<f64> {
                v.iter()
                    .map(|x| if chance("chg", 1, 2) { x + 0.25 * with_sim(|s| s.cs.small("dv")) } else { *x })
                    .collect()
            };
            let ok = match which {
                0 => {
                    let nv = bump(&prob.q);
                    if indexed && !nv.is_empty() {
                        let i = choose("idx", nv.len() as u32) as usize;
                        prob.q[i] = nv[i];
                        solver.update_q(&(vec![i], vec![nv[i]])).is_ok()
                    } else {
                        prob.q = nv.clone();
                        solver.update_q(&nv).is_ok()
                    }
                }
                1 => {
                    // stay below the infinity bound (update_b does not cap; see DESIGN O1)
                    let nv: Vec<f64> = bump(&prob.b).iter().map(|v| v.min(1e9)).collect();
                    prob.b = nv.clone();
                    solver.update_b(&nv).is_ok()
                }
                2 => {
                    let nv: Vec<f64> = prob.p_triu.nzval.iter().map(|v| v * 2.0).collect();
                    prob.p_triu.nzval = nv.clone();
                    prob.p_user = prob.p_triu.clone();
                    solver.update_P(&nv).is_ok()
                }
                _ => {
                    let nv = bump(&prob.a.nzval);
                    if indexed && !nv.is_empty() {
                        let i = choose("idx", nv.len() as u32) as usize;
                        prob.a.nzval[i] = nv[i];
                        solver.update_A(&(vec![i], vec![nv[i]])).is_ok()
                    } else {
                        prob.a.nzval = nv.clone();
                        solver.update_A(&nv).is_ok()
                    }
                }
            };
            if !ok {
                probe("c19_update_rejected_skipped");
                return out;
            }
            probe("c19_updates_before_save");
        }
        eff = effective(&prob, bound, settings.presolve_enable);
    }

    // the user may edit public settings fields after construction; they are saved as they
    // are, but the stored *data* must still be the user's problem (equilibration and
    // presolve were applied once, by the constructor)
    if chance("flip_equil_before_save", 1, 4) {
        solver.settings.equilibrate_enable = !solver.settings.equilibrate_enable;
        probe("c19_settings_edited_before_save");
    }
    if chance("flip_presolve_before_save", 1, 6) {
        solver.settings.presolve_enable = !solver.settings.presolve_enable;
        probe("c19_settings_edited_before_save");
    }
    let saved_settings = solver.settings.clone();

    // ------------------------------------------------------------ save
    let path = work_file("problem.json");
    call(1, "save", false, String::new());
    let save_r = {
        let mut f = File::create(&path).expect("create");
        solver.save_to_file(&mut f)
    };
    call(1, "save", true, format!("{:?}", save_r.is_ok()));
    if let Err(e) = save_r {
        out.violations.push(Violation::new(
            "C19.save_failed",
            format!("save_to_file to a regular file failed: {}", e),
        ));
        return out;
    }
    let bytes = std::fs::read(&path).expect("read back");
    let doc: Value = match serde_json::from_slice(&bytes) {
        Ok(v) => v,
        Err(e) => {
            out.violations.push(Violation::new(
                "C19.saved_file_not_json",
                format!("saved file is not valid JSON: {}", e),
            ));
            return out;
        }
    };

    // ------------------------------------------------------------ fault-free round trip
    let equil = settings.equilibrate_enable;
    let max_ulps = if equil { 64 } else { 0 };
    if eff.n_dropped == 0 {
        // (1) the stored data are the user's originals (P as upper triangle, b capped)
        let checks: [(&str, Option<String>); 4] = [
            (
                "P",
                mat_from_json(&doc["P"]).and_then(|m| {
                    if m.m != prob.n || m.n != prob.n || m.colptr != prob.p_triu.colptr || m.rowval != prob.p_triu.rowval {
                        Some("pattern differs from the upper triangle of the user's P".to_string())
                    } else {
                        close_vec(&m.nzval, &prob.p_triu.nzval, max_ulps)
                    }
                }),
            ),
            (
                "A",
                mat_from_json(&doc["A"]).and_then(|m| {
                    if m.m != prob.m || m.n != prob.n || m.colptr != prob.a.colptr || m.rowval != prob.a.rowval {
                        Some("pattern differs from the user's A".to_string())
                    } else {
                        close_vec(&m.nzval, &prob.a.nzval, max_ulps)
                    }
                }),
            ),
            ("q", vec_from_json(&doc["q"]).and_then(|v| close_vec(&v, &prob.q, max_ulps))),
            ("b", vec_from_json(&doc["b"]).and_then(|v| close_vec(&v, &eff.b_capped, max_ulps))),
        ];
        for (name, r) in checks {
            if let Some(d) = r {
                out.violations.push(Violation::new(
                    "C19.stored_data_differs",
                    format!("stored {} differs from the user's data: {} (equilibration {})", name, d, equil),
                ));
            }
        }
        // cones: the stored list must describe the same product cone
        let want = serde_json::to_value(
            crate::props::c20::model_internal_cones(&hand_reduce(&prob, &eff))
                .iter()
                .map(|c| c.to_clarabel())
                .collect::<Vec<_>>(),
        )
        .unwrap();
        if doc["cones"] != want {
            out.violations.push(Violation::new(
                "C19.stored_cones_differ",
                format!("stored cones {} vs expected {}", doc["cones"], want),
            ));
        }
    }
    // (2) load without settings: identical settings, same verdict and objective
    let reference_snap = {
        // what the original solver gives on a (re-)solve with the limits used below
        let mut s0 = match sv_new(2, &prob, saved_settings.clone()) {
            Ok(s) => s,
            Err(_) => return out,
        };
        s0.print_to_sink();
        s0.settings.time_limit = f64::INFINITY;
        s0.settings.max_iter = settings.max_iter.min(60);
        sv_solve(2, &mut s0).ok()
    };
    {
        let mut f = File::open(&path).expect("open");
        match load_file(&mut f, None) {
            LoadOutcome::Ok(s2) => {
                let (a, b) = (format!("{:?}", s2.settings), format!("{:?}", saved_settings));
                if a != b {
                    out.violations.push(Violation::new(
                        "C19.settings_differ",
                        format!("loaded settings differ from the saved solver's: {} vs {}", a, b),
                    ));
                }
                match (exercise(s2), &reference_snap) {
                    (Ok(_), Some(_)) if saved_settings.presolve_enable != settings.presolve_enable => {
                        // presolve_enable was edited after construction: the loaded (already
                        // reduced) problem and the reference are structurally different
                        probe("c19_presolve_edited_solve_not_compared");
                    }
                    (Ok(sn), Some(r)) => {
                        if !equil {
                            // exact data => exact solve (lengths may differ when rows were dropped)
                            let proj = if eff.n_dropped > 0 {
                                let kept: Vec<usize> = (0..prob.m).filter(|i| eff.keep[*i]).collect();
                                Snap {
                                    s: kept.iter().map(|&i| r.s[i]).collect(),
                                    z: kept.iter().map(|&i| r.z[i]).collect(),
                                    ..r.clone()
                                }
                            } else {
                                r.clone()
                            };
                            if let Some(d) = sn.diff_numeric(&proj) {
                                out.violations.push(Violation::new(
                                    "C19.loaded_solve_differs",
                                    format!("equilibration off: solve of the loaded problem differs from the original: {}", d),
                                ));
                            }
                        } else if (0..prob.m).any(|i| eff.keep[i] && eff.b_capped[i].abs() > 1e8) {
                            // data at the scale of the infinity bound: the verdict is not
                            // stable under the rounding of one scale/unscale round trip
                            probe("c19_huge_rhs_verdict_not_compared");
                        } else if let (Some(a), Some(b)) = (definite_status(&sn), definite_status(r)) {
                            if a != b && !prob.cones.iter().any(|c| !matches!(c, crate::gen::ConeSpec::Zero(_))) {
                                // as in C08: with equality constraints only the verdict is not a stable
                                // function of the data (an LP over a subspace is bounded only if q lies
                                // exactly in range(A')); the rounding of the scale/unscale round trip
                                // that the property allows decides it either way
                                probe("c19_equality_only_disagreement_not_judged");
                            } else if a != b
                                && eff.n_dropped == 0
                                && !(crate::props::c08::verdict_is_backed(&prob, &eff, &saved_settings, &sn)
                                    && crate::props::c08::verdict_is_backed(&prob, &eff, &saved_settings, r))
                            {
                                // as in C08: a verdict that is not backed by what the solver returned
                                // is a numerical failure on this (degenerate) input, which the last-bit
                                // differences of one scale/unscale round trip can flip either way
                                probe("c19_unbacked_verdict_disagreement_not_judged");
                            } else if a != b {
                                out.violations.push(Violation::new(
                                    "C19.loaded_verdict_differs",
                                    format!("loaded problem: {:?}, original: {:?}", sn.status, r.status),
                                ));
                            } else if a == 0 {
                                let mut tol = (sn.obj_val - sn.obj_val_dual).abs()
                                    + (r.obj_val - r.obj_val_dual).abs()
                                    + 1e-6 * (1.0 + r.obj_val.abs());
                                // two tolerance-level solutions of the same data may also differ by
                                // their residuals' weak-duality slack (the computable slack of C05/C08)
                                if eff.n_dropped == 0
                                    && sn.x.len() == prob.n
                                    && r.x.len() == prob.n
                                    && sn.z.len() == prob.m
                                    && r.z.len() == prob.m
                                    && sn.s.len() == prob.m
                                    && r.s.len() == prob.m
                                {
                                    let sl = crate::props::c08::objective_slack(&prob, &eff, &sn, r);
                                    if sl.is_finite() {
                                        tol += sl;
                                    }
                                }
                                if (sn.obj_val - r.obj_val).abs() > tol {
                                    out.violations.push(Violation::new(
                                        "C19.loaded_objective_differs",
                                        format!("loaded problem objective {:e}, original {:e}", sn.obj_val, r.obj_val),
                                    ));
                                }
                            }
                        }
                    }
                    (Err(p), _) => out.violations.push(Violation::new(
                        "C19.loaded_solver_panics",
                        format!("solve of the problem loaded from an intact file panicked: {}", p),
                    )),
                    _ => {}
                }
            }
            LoadOutcome::Err(e) => out.violations.push(Violation::new(
                "C19.intact_file_rejected",
                format!("load_from_file of an intact file returned Err: {}", e),
            )),
            LoadOutcome::Panic(p) => out.violations.push(Violation::new(
                "C19.load_panic",
                format!("load_from_file of an intact file panicked: {}", p),
            )),
        }
    }
    // (2b) second generation: load, save again, load again - the data may not drift
    {
        let mut f = File::open(&path).expect("open");
        if let LoadOutcome::Ok(s2) = load_file(&mut f, None) {
            let p2 = work_file("second_generation.json");
            let r = {
                let mut g = File::create(&p2).expect("create");
                s2.save_to_file(&mut g)
            };
            probe("c19_second_generation_saves");
            match r {
                Err(e) => out.violations.push(Violation::new(
                    "C19.save_failed",
                    format!("saving the loaded solver failed: {}", e),
                )),
                Ok(()) => {
                    let bytes2 = std::fs::read(&p2).unwrap_or_default();
                    match serde_json::from_slice::<Value>(&bytes2) {
                        Err(e) => out.violations.push(Violation::new(
                            "C19.saved_file_not_json",
                            format!("second-generation file is not valid JSON: {}", e),
                        )),
                        Ok(doc2) => {
                            // the loaded solver re-applies presolve/equilibration per the stored settings;
                            // without reductions in either generation the data must agree to rounding
                            let reduced_again = !s2.is_data_update_allowed();
                            if !reduced_again {
                                let tol = if saved_settings.equilibrate_enable || equil { 128 } else { 0 };
                                for key in ["q", "b"] {
                                    if let (Some(a), Some(b)) = (vec_from_json(&doc[key]), vec_from_json(&doc2[key])) {
                                        if let Some(d) = close_vec(&b, &a, tol) {
                                            out.violations.push(Violation::new(
                                                "C19.second_generation_drifts",
                                                format!("{} after load+save differs from the first file: {}", key, d),
                                            ));
                                        }
                                    }
                                }
                                for key in ["P", "A"] {
                                    if let (Some(a), Some(b)) = (mat_from_json(&doc[key]), mat_from_json(&doc2[key])) {
                                        if a.colptr != b.colptr || a.rowval != b.rowval {
                                            out.violations.push(Violation::new(
                                                "C19.second_generation_drifts",
                                                format!("pattern of {} changed after load+save", key),
                                            ));
                                        } else if let Some(d) = close_vec(&b.nzval, &a.nzval, tol) {
                                            out.violations.push(Violation::new(
                                                "C19.second_generation_drifts",
                                                format!("{} after load+save differs from the first file: {}", key, d),
                                            ));
                                        }
                                    }
                                }
                                if doc["cones"] != doc2["cones"] || doc["settings"] != doc2["settings"] {
                                    out.violations.push(Violation::new(
                                        "C19.second_generation_drifts",
                                        "cones or settings changed after load+save".to_string(),
                                    ));
                                }
                            }
                        }
                    }
                }
            }
            std::fs::remove_file(&p2).ok();
        }
    }

    // (3) a settings argument overrides the stored one
    {
        let mut other = with_sim(|s| gen_settings(&mut s.cs, false));
        other.max_iter = 3;
        other.tol_feas = 1e-5;
        let mut f = File::open(&path).expect("open");
        match load_file(&mut f, Some(other.clone())) {
            LoadOutcome::Ok(s3) => {
                let (a, b) = (format!("{:?}", s3.settings), format!("{:?}", other));
                if a != b {
                    out.violations.push(Violation::new(
                        "C19.settings_override_ignored",
                        format!("load with a settings argument carries {} instead of {}", a, b),
                    ));
                }
            }
            LoadOutcome::Err(e) => out.violations.push(Violation::new("C19.intact_file_rejected", e)),
            LoadOutcome::Panic(p) => out.violations.push(Violation::new("C19.load_panic", p)),
        }
    }

    // (3b) ... also when the stored settings block is itself unusable in this build
    // (written by a build with another backend, or damaged): the argument replaces it
    {
        let mut other = with_sim(|s| gen_settings(&mut s.cs, false));
        other.max_iter = 5;
        for (key, val) in [
            ("direct_solve_method", Value::String("faer".to_string())),
            ("direct_solve_method", Value::String("no-such-method".to_string())),
            ("direct_kkt_solver", Value::Bool(false)),
        ] {
            let mut d2 = doc.clone();
            d2["settings"][key] = val.clone();
            let p2 = work_file("settings_variant.json");
            std::fs::write(&p2, serde_json::to_vec(&d2).unwrap()).expect("write");
            probe("c19_stored_settings_unusable_with_override");
            let mut f = File::open(&p2).expect("open");
            match load_file(&mut f, Some(other.clone())) {
                LoadOutcome::Ok(s3) => {
                    if format!("{:?}", s3.settings) != format!("{:?}", other) {
                        out.violations.push(Violation::new(
                            "C19.settings_override_ignored",
                            format!("stored {}={} with a settings argument: loaded solver does not carry the argument", key, val),
                        ));
                    }
                }
                LoadOutcome::Err(e) => out.violations.push(Violation::new(
                    "C19.settings_override_ignored",
                    format!("stored {}={}: the settings argument should replace the stored block, but load failed: {}", key, val, e),
                )),
                LoadOutcome::Panic(p) => out.violations.push(Violation::new("C19.load_panic", p)),
            }
            // without the argument the stored block is used: error, never a panic
            let mut f = File::open(&p2).expect("open");
            if let LoadOutcome::Panic(p) = load_file(&mut f, None) {
                out.violations.push(Violation::new(
                    "C19.load_panic",
                    format!("stored {}={}: load_from_file panicked: {}", key, val, p),
                ));
            }
            std::fs::remove_file(&p2).ok();
        }
    }

    // ------------------------------------------------------------ descriptor faults
    with_sim(|s| s.store_log = false); // bulk phase: events are hashed, not stored
    {
        // ENOSPC
        if let Ok(mut f) = OpenOptions::new().write(true).open("/dev/full") {
            probe("c19_fd_dev_full");
            match catch_unwind(AssertUnwindSafe(|| solver.save_to_file(&mut f))) {
                Ok(Err(_)) => {}
                Ok(Ok(())) => out.violations.push(Violation::new(
                    "C19.save_error_swallowed",
                    "save_to_file to /dev/full returned Ok".to_string(),
                )),
                Err(p) => out.violations.push(Violation::new("C19.save_panic", crate::panic_message(&p))),
            }
        }
        // descriptor opened read-only
        {
            probe("c19_fd_read_only");
            let mut f = File::open(&path).expect("open");
            match catch_unwind(AssertUnwindSafe(|| solver.save_to_file(&mut f))) {
                Ok(Err(_)) => {}
                Ok(Ok(())) => out.violations.push(Violation::new(
                    "C19.save_error_swallowed",
                    "save_to_file to a read-only descriptor returned Ok".to_string(),
                )),
                Err(p) => out.violations.push(Violation::new("C19.save_panic", crate::panic_message(&p))),
            }
        }
        // write-only descriptor / directory for reading
        let p2 = work_file("wo.json");
        std::fs::write(&p2, &bytes).ok();
        for (name, f) in [
            ("write-only descriptor", OpenOptions::new().write(true).open(&p2).ok()),
            ("directory", File::open(crate::scratch_dir()).ok()),
        ] {
            if let Some(mut f) = f {
                probe("c19_fd_unreadable");
                match load_file(&mut f, None) {
                    LoadOutcome::Err(_) => {}
                    LoadOutcome::Ok(_) => out.violations.push(Violation::new(
                        "C19.load_from_unreadable_ok",
                        format!("load_from_file from a {} returned Ok", name),
                    )),
                    LoadOutcome::Panic(p) => out.violations.push(Violation::new("C19.load_panic", format!("{}: {}", name, p))),
                }
            }
        }
        std::fs::remove_file(&p2).ok();
        // handle not rewound after saving
        {
            probe("c19_fd_not_rewound");
            let p3 = work_file("rw.json");
            let mut f = OpenOptions::new().read(true).write(true).create(true).truncate(true).open(&p3).expect("rw");
            let _ = solver.save_to_file(&mut f);
            match load_file(&mut f, None) {
                LoadOutcome::Panic(p) => out.violations.push(Violation::new("C19.load_panic", format!("handle not rewound: {}", p))),
                LoadOutcome::Ok(_) => out.violations.push(Violation::new(
                    "C19.load_from_eof_ok",
                    "load_from_file at end of file returned Ok".to_string(),
                )),
                LoadOutcome::Err(_) => {}
            }
            // rewound: must load
            f.seek(SeekFrom::Start(0)).ok();
            if !matches!(load_file(&mut f, None), LoadOutcome::Ok(_)) {
                out.violations.push(Violation::new(
                    "C19.intact_file_rejected",
                    "load after rewinding the same handle failed".to_string(),
                ));
            }
            // stale tail: a shorter save over a longer file without truncation
            f.seek(SeekFrom::Start(0)).ok();
            let mut longer = bytes.clone();
            longer.extend_from_slice(b"      \n{\"stale\":true}");
            f.write_all(&longer).ok();
            f.seek(SeekFrom::Start(0)).ok();
            let _ = solver.save_to_file(&mut f); // shorter content, old tail remains
            f.seek(SeekFrom::Start(0)).ok();
            probe("c19_fault_stale_tail");
            let mut got = Vec::new();
            let _ = File::open(&p3).and_then(|mut g| g.read_to_end(&mut got));
            if got.len() > bytes.len() {
                match load_file(&mut f, None) {
                    LoadOutcome::Panic(p) => out.violations.push(Violation::new("C19.load_panic", format!("stale tail: {}", p))),
                    LoadOutcome::Ok(_) => out.violations.push(Violation::new(
                        "C19.corrupt_file_accepted",
                        "a file with a stale tail after the document was accepted".to_string(),
                    )),
                    LoadOutcome::Err(_) => {}
                }
            }
            drop(f);
            std::fs::remove_file(&p3).ok();
        }
        // pipe delivering the file in 1..7 byte chunks (short reads)
        if chance("pipe", 1, 4) {
            probe("c19_fd_pipe_short_reads");
            if let Ok((rd, mut wr)) = std::io::pipe() {
                let data = bytes.clone();
                let seed = choose("pipeseed", 1 << 16) as u64;
                let h = std::thread::spawn(move || {
                    let mut i = 0;
                    let mut k = 0u64;
                    while i < data.len() {
                        let n = 1 + (crate::choice::mix(seed, k) % 7) as usize;
                        let end = (i + n).min(data.len());
                        if wr.write_all(&data[i..end]).is_err() {
                            break;
                        }
                        i = end;
                        k += 1;
                    }
                });
                let fd: std::os::fd::OwnedFd = rd.into();
                let mut f = File::from(fd);
                let r = load_file(&mut f, None);
                h.join().ok();
                match r {
                    LoadOutcome::Ok(s) => {
                        if format!("{:?}", s.settings) != format!("{:?}", saved_settings) {
                            out.violations.push(Violation::new(
                                "C19.short_reads_change_result",
                                "problem loaded through a pipe differs".to_string(),
                            ));
                        }
                    }
                    LoadOutcome::Err(e) => out.violations.push(Violation::new(
                        "C19.short_reads_rejected",
                        format!("load through a pipe with short reads failed: {}", e),
                    )),
                    LoadOutcome::Panic(p) => out.violations.push(Violation::new("C19.load_panic", p)),
                }
            }
        }
    }

    // ------------------------------------------------------------ disk faults
    let len = bytes.len();
    let mut faults: Vec<DiskFault> = vec![DiskFault::Lost];
    if tier == Tier::Thorough {
        for k in 0..len {
            faults.push(DiskFault::Truncate(k));
            for b in 0..8 {
                faults.push(DiskFault::BitFlip(k, b));
            }
        }
        for _ in 0..len {
            let p = choose("subst_at", len as u32) as usize;
            faults.push(DiskFault::Subst(p, HOSTILE[choose("subst_c", 11) as usize]));
        }
    } else {
        for k in [0usize, 1, len - 1, len.saturating_sub(2)] {
            faults.push(DiskFault::Truncate(k.min(len - 1)));
        }
        for _ in 0..20 {
            faults.push(DiskFault::Truncate(choose("trunc", len as u32) as usize));
        }
        for _ in 0..40 {
            faults.push(DiskFault::BitFlip(choose("flip_at", len as u32) as usize, choose("bit", 8) as u8));
        }
        for _ in 0..40 {
            let p = choose("subst_at", len as u32) as usize;
            faults.push(DiskFault::Subst(p, HOSTILE[choose("subst_c", 11) as usize]));
        }
        // digit-to-digit damage inside the structural fields (dimensions, column
        // pointers, row indices, cone list), where a flipped bit still parses
        let st = structural_digits(&bytes);
        if !st.is_empty() {
            for _ in 0..30 {
                let p = st[choose("struct_at", st.len() as u32) as usize];
                faults.push(DiskFault::BitFlip(p, choose("struct_bit", 4) as u8));
            }
            // the first entries of the arrays are the rarest to be hit by position
            for k in st.iter().filter(|&&k| k > 0 && bytes[k - 1] == b'[').take(6) {
                faults.push(DiskFault::BitFlip(*k, choose("struct_bit0", 3) as u8));
            }
        }
    }
    for _ in 0..2 {
        let s = choose("sector", len as u32) as usize;
        faults.push(DiskFault::ZeroSector(s, 512));
        faults.push(DiskFault::ZeroSector(s, 1 + choose("zlen", 16) as usize));
        faults.push(DiskFault::DupTail(1 + choose("dup", len as u32 - 1) as usize));
    }
    let fpath = work_file("faulted.json");
    let d = solver.data.equilibration.d.clone();
    let e = solver.data.equilibration.e.clone();
    let c = solver.data.equilibration.c;
    let _ = (&d, &e, c);
    let mut n_ok = 0u64;
    let mut n_literal = 0u64;
    for f in &faults {
        let cor = apply(&bytes, f);
        if cor == bytes {
            continue;
        }
        probe(kind_name(f));
        // a corruption confined to the stored settings block is irrelevant when the
        // caller supplies settings: the load must succeed with the caller's settings
        if let Ok(cv) = serde_json::from_slice::<Value>(&cor) {
            if differs_only_in_settings(&doc, &cv) {
                with_sim(|s| s.probe("c19_settings_only_corruption_with_override"));
                std::fs::write(&fpath, &cor).expect("write work file");
                let mut fh = File::open(&fpath).expect("open work file");
                match load_file(&mut fh, Some(settings.clone())) {
                    LoadOutcome::Ok(s3) => {
                        if format!("{:?}", s3.settings) != format!("{:?}", settings) {
                            out.violations.push(Violation::new(
                                "C19.settings_override_ignored",
                                format!("{:?}: loaded solver does not carry the supplied settings", f),
                            ));
                        }
                    }
                    LoadOutcome::Err(e) => out.violations.push(Violation::new(
                        "C19.settings_override_ignored",
                        format!("{:?} damaged only the stored settings, a settings argument was supplied, yet load failed: {}", f, e),
                    )),
                    LoadOutcome::Panic(p) => out.violations.push(Violation::new("C19.load_panic", format!("{:?}: {}", f, p))),
                }
            }
        }
        // damage that leaves the JSON document itself intact (e.g. a lost trailing newline,
        // if the writer emits one) is not a corruption of the stored problem
        if serde_json::from_slice::<Value>(&cor).map(|v| v == doc).unwrap_or(false) {
            probe("c19_damage_left_document_intact");
            if let LoadOutcome::Panic(p) = load_bytes(&fpath, &cor) {
                out.violations.push(Violation::new(
                    "C19.load_panic",
                    format!("{:?} on a {}-byte file: load_from_file panicked: {}", f, len, p),
                ));
            }
            continue;
        }
        let r = load_bytes(&fpath, &cor);
        match r {
            LoadOutcome::Panic(p) => {
                out.violations.push(Violation::new(
                    "C19.load_panic",
                    format!("{:?} on a {}-byte file: load_from_file panicked: {}", f, len, p),
                ));
            }
            LoadOutcome::Err(_) => {
                // a corruption confined to one finite numeric literal of q or b is
                // still a well-formed problem file: it must load
                if let Ok(cv) = serde_json::from_slice::<Value>(&cor) {
                    if let Some((which, i, v)) = single_literal_change(&doc, &cv) {
                        out.violations.push(Violation::new(
                            "C19.valid_file_rejected",
                            format!("{:?}: only {}[{}] changed (to {:e}) yet the file was rejected", f, which, i, v),
                        ));
                    }
                }
            }
            LoadOutcome::Ok(s) => {
                n_ok += 1;
                if matches!(f, DiskFault::Truncate(_) | DiskFault::Lost | DiskFault::DupTail(_)) {
                    out.violations.push(Violation::new(
                        "C19.corrupt_file_accepted",
                        format!("{:?}: a truncated / duplicated file was accepted", f),
                    ));
                    continue;
                }
                // (c) exactly that value
                if let Ok(cv) = serde_json::from_slice::<Value>(&cor) {
                    if let Some((which, i, v)) = single_literal_change(&doc, &cv) {
                        n_literal += 1;
                        if s.is_data_update_allowed() {
                            let got = if which == "q" {
                                let dd = &s.data.equilibration.d;
                                s.data.q[i] / (dd[i] * s.data.equilibration.c)
                            } else {
                                s.data.b[i] / s.data.equilibration.e[i]
                            };
                            let want = if which == "b" { v.min(bound) } else { v };
                            if ulps(got, want) > 256 && (got - want).abs() > 1e-300 {
                                out.violations.push(Violation::new(
                                    "C19.loaded_value_wrong",
                                    format!("{:?}: file says {}[{}] = {:e}, loaded solver holds {:e}", f, which, i, want, got),
                                ));
                            }
                        }
                    }
                }
                // (b) a usable solver.  If the corruption changed a settings value the
                // solver now runs under arbitrary settings (e.g. a line-search factor
                // above one), which no property covers: construct only.
                if format!("{:?}", s.settings) != format!("{:?}", saved_settings) {
                    with_sim(|s| s.probe("c19_corruption_hit_settings"));
                    continue;
                }
                if let Err(p) = exercise(s) {
                    out.violations.push(Violation::new(
                        "C19.loaded_solver_panics",
                        format!("{:?}: file accepted, then solve panicked: {}", f, p),
                    ));
                }
            }
        }
        if out.violations.len() > 8 {
            break;
        }
    }
    with_sim(|s| {
        s.probe_n("c19_corrupted_file_loaded_ok", n_ok);
        s.probe_n("c19_single_literal_corruptions", n_literal);
        s.store_log = true;
    });
    std::fs::remove_file(&fpath).ok();
    std::fs::remove_file(&path).ok();
    out.nontrivial = true;
    out.summary = format!(
        "{} | {} | file {} bytes | {} faults ({} accepted)",
        prob.describe(),
        describe_settings(&settings),
        len,
        faults.len(),
        n_ok
    );
    out
}

fn definite_status(s: &Snap) -> Option<u8> {
    use clarabel::solver::SolverStatus::*;
    match s.status {
        Solved => Some(0),
        PrimalInfeasible => Some(1),
        DualInfeasible => Some(2),
        _ => None,
    }
}
