//! C05 — schedule, re-solve and reproducibility clauses.
//!
//! (1) solver instances driven concurrently on 2-4 simulated threads (with
//!     other threads storing to the infinity bound) give, bit for bit, what
//!     the same program gives when run alone;
//! (2) solving the same solver twice, or after an interrupted solve, is
//!     bit-for-bit the uninterrupted first solve;
//! (3) the same seed executed in another process gives an identical event
//!     log (the determinism re-check every check performs).

use crate::gen::*;
use crate::harness::*;
use crate::simcore::*;
use crate::Tier;
use clarabel::io::ConfigurablePrintTarget;
use clarabel::solver::{DefaultSettings, DefaultSolver};

#[derive(Clone, Debug)]
pub enum Op {
    New,
    Solve { max_iter: u32, time_limit: f64 },
    UpdateQ(Vec<f64>),
    UpdateB(Vec<f64>),
}

#[derive(Clone, Debug)]
pub struct Prog {
    pub prob: Prob,
    pub settings: DefaultSettings<f64>,
    pub ops: Vec<Op>,
    pub profile: ClockProfile,
    pub sink: Option<SinkPlan>,
}

#[derive(Clone, Debug, Default)]
pub struct ProgResult {
    pub snaps: Vec<Snap>,
    pub update_results: Vec<bool>,
    pub out_bytes: Vec<u8>,
    pub panicked: Option<String>,
}

fn run_prog(sid: u32, p: &Prog) -> ProgResult {
    let mut r = ProgResult::default();
    let mut solver: Option<DefaultSolver<f64>> = None;
    let mut sink_id = None;
    for op in &p.ops {
        match op {
            Op::New => match sv_new(sid, &p.prob, p.settings.clone()) {
                Ok(mut s) => {
                    match &p.sink {
                        Some(plan) => {
                            let id = with_sim(|s| s.new_sink(plan.clone()));
                            sink_id = Some(id);
                            s.print_to_stream(Box::new(SimWriter { id }));
                        }
                        None => s.print_to_sink(),
                    }
                    solver = Some(s);
                }
                Err(e) => {
                    r.panicked = Some(e);
                    return r;
                }
            },
            Op::Solve { max_iter, time_limit } => {
                if let Some(s) = solver.as_mut() {
                    s.settings.max_iter = *max_iter;
                    s.settings.time_limit = *time_limit;
                    match sv_solve(sid, s) {
                        Ok(sn) => r.snaps.push(sn),
                        Err(e) => {
                            r.panicked = Some(e);
                            break;
                        }
                    }
                }
            }
            Op::UpdateQ(v) => {
                if let Some(s) = solver.as_mut() {
                    call(sid, "update", false, "q".into());
                    let ok = s.update_q(v).is_ok();
                    call(sid, "update", true, format!("{}", ok));
                    r.update_results.push(ok);
                }
            }
            Op::UpdateB(v) => {
                if let Some(s) = solver.as_mut() {
                    call(sid, "update", false, "b".into());
                    let ok = s.update_b(v).is_ok();
                    call(sid, "update", true, format!("{}", ok));
                    r.update_results.push(ok);
                }
            }
        }
    }
    if let Some(id) = sink_id {
        r.out_bytes = with_sim(|s| s.sinks[id].accepted.clone());
    }
    r
}

fn diff_results(a: &ProgResult, b: &ProgResult, with_time: bool) -> Option<String> {
    if a.panicked != b.panicked {
        return Some(format!("panic {:?} vs {:?}", a.panicked, b.panicked));
    }
    if a.snaps.len() != b.snaps.len() {
        return Some(format!("{} vs {} solves", a.snaps.len(), b.snaps.len()));
    }
    for (k, (x, y)) in a.snaps.iter().zip(&b.snaps).enumerate() {
        if let Some(d) = x.diff_bitwise(y) {
            return Some(format!("solve #{}: {}", k, d));
        }
        if with_time && x.solve_time.to_bits() != y.solve_time.to_bits() {
            return Some(format!("solve #{}: solve_time {:e} vs {:e}", k, x.solve_time, y.solve_time));
        }
    }
    if a.update_results != b.update_results {
        return Some("update return values differ".to_string());
    }
    if a.out_bytes != b.out_bytes {
        return Some(format!("printed output differs ({} vs {} bytes)", a.out_bytes.len(), b.out_bytes.len()));
    }
    None
}

fn gen_prog(opts: &GenOpts, tid: usize) -> Prog {
    let mut prob = with_sim(|s| gen_problem(&mut s.cs, opts));
    // some right-hand sides in the range of the bounds the setter threads use, so that
    // hidden module-level state about the bound would change what construction does
    if chance("plant_inf", 1, 3) {
        crate::props::c09::plant(&mut prob);
    }
    let verbose = chance("verbose", 1, 3);
    let mut settings = with_sim(|s| gen_settings(&mut s.cs, verbose));
    // updates are part of the programs: keep presolve reductions out of the way
    // unless the problem has no infinite bounds anyway
    if chance("presolve_off", 1, 2) {
        settings.presolve_enable = false;
    }
    let sink = if verbose {
        Some(SinkPlan {
            seed: choose("sinkseed", 1 << 16) as u64,
            short_rate: [0, 64][choose("short", 2) as usize],
            eintr_rate: [0, 64][choose("eintr", 2) as usize],
            hard_at: None,
            flush_err_at: None,
        })
    } else {
        None
    };
    let mut profile = ClockProfile::fine(7000 + tid as u64 * 131 + choose("clkseed", 1 << 10) as u64);
    profile.creep = 1_000_000;
    let mut ops = vec![Op::New];
    let nsolve = 1 + choose("nsolve", 3);
    for k in 0..nsolve {
        if k > 0 && chance("upd", 1, 2) {
            if flag("updq") {
                let v: Vec<f64> = prob.q.iter().map(|q| q + 0.25 * with_sim(|s| s.cs.small("dq"))).collect();
                ops.push(Op::UpdateQ(v));
            } else {
                let v: Vec<f64> = prob
                    .b
                    .iter()
                    .map(|b| b + 0.25 * with_sim(|s| s.cs.small("db")).abs())
                    .collect();
                ops.push(Op::UpdateB(v));
            }
        }
        let max_iter = [60u32, 60, 3, 8][choose("max_iter", 4) as usize];
        let time_limit = match choose("tl", 3) {
            1 => secs(choose("at", 400) as u64 * 1_000_000),
            _ => f64::INFINITY,
        };
        ops.push(Op::Solve { max_iter, time_limit });
    }
    Prog {
        prob,
        settings,
        ops,
        profile,
        sink,
    }
}

/// the value the construction on thread `th` observed
fn observed_bound(log: &[Ev], th: u8, sid: u32) -> Vec<f64> {
    let mut inside = false;
    let mut v = vec![];
    for e in log {
        if e.th != th {
            continue;
        }
        match &e.kind {
            EvKind::Call { sid: s, op, ret, .. } if *s == sid && *op == "new" => inside = !*ret,
            EvKind::InfRead(b) if inside => v.push(f64::from_bits(*b)),
            _ => {}
        }
    }
    v
}

fn switches_inside_solves(log: &[Ev]) -> u64 {
    // count scheduler hand-offs away from a thread while it is inside solve()
    let mut in_solve = [false; 16];
    let mut n = 0;
    for e in log {
        match &e.kind {
            EvKind::Call { op, ret, .. } if *op == "solve" => in_solve[e.th as usize % 16] = !*ret,
            EvKind::Sched { .. } if in_solve[e.th as usize % 16] => n += 1,
            _ => {}
        }
    }
    n
}

pub fn run(tier: Tier) -> RunOutcome {
    let mut out = RunOutcome::default();
    let opts = match tier {
        Tier::Quick => GenOpts::quick(),
        Tier::Thorough => GenOpts::thorough(),
    };
    let mode = choose("mode", 3);
    if mode == 0 {
        return run_resolve(&opts);
    }
    // ---------------- concurrent instances ----------------
    let nsolvers = 2 + choose("nsolvers", 2) as usize;
    let nsetters = choose("nsetters", 2) as usize;
    let nthreads = nsolvers + nsetters;
    let progs: Vec<Prog> = (0..nsolvers).map(|t| gen_prog(&opts, t)).collect();
    // a NaN entry stands for default_infinity()
    let setter_ops: Vec<Vec<f64>> = (0..nsetters)
        .map(|_| {
            (0..1 + choose("nsets", 4))
                .map(|_| [1e20, 1e3, 1e6, 1e10, f64::NAN][choose("bound", 5) as usize])
                .collect()
        })
        .collect();
    quiet_set_infinity(clarabel::INFINITY_DEFAULT);
    note(format!("inf_model={}", clarabel::INFINITY_DEFAULT.to_bits()));
    with_sim(|s| {
        s.clocks = (0..nthreads)
            .map(|t| {
                if t < nsolvers {
                    Clock::new(progs[t].profile.clone())
                } else {
                    Clock::new(ClockProfile::fine(99))
                }
            })
            .collect();
        s.sched_bias = [1, 2, 4, 16][s.cs.choose("bias", 4) as usize];
    });
    for (i, p) in progs.iter().enumerate() {
        api(format!(
            "program t{}: {} | {} | ops {:?}",
            i,
            p.prob.describe(),
            describe_settings(&p.settings),
            p.ops.iter().map(|o| match o { Op::New => "New".to_string(), Op::Solve{max_iter,time_limit} => format!("Solve({},{:e})", max_iter, time_limit), Op::UpdateQ(_) => "UpdateQ".into(), Op::UpdateB(_) => "UpdateB".into() }).collect::<Vec<_>>()
        ));
    }
    let mut bodies: Vec<Box<dyn FnOnce() -> Option<ProgResult> + Send>> = vec![];
    for (i, p) in progs.iter().cloned().enumerate() {
        bodies.push(Box::new(move || Some(run_prog(i as u32 + 1, &p))));
    }
    for ops in setter_ops.iter().cloned() {
        bodies.push(Box::new(move || {
            for v in ops {
                if v.is_nan() {
                    sim_default_infinity();
                } else {
                    sim_set_infinity(v);
                }
            }
            None
        }));
    }
    let log0 = with_sim(|s| s.log.len());
    let results = run_threads(bodies);
    let log = with_sim(|s| s.log[log0..].to_vec());
    let switches = switches_inside_solves(&log);
    with_sim(|s| s.probe_n("c05_switches_inside_solves", switches));

    // ---- each program alone, in the quiescent phase
    let mut summaries = vec![];
    for (i, p) in progs.iter().enumerate() {
        let conc = match &results[i] {
            Ok(Some(r)) => r.clone(),
            Ok(None) => continue,
            Err(e) => {
                out.violations.push(Violation::new("C05.thread_panicked", e.clone()));
                continue;
            }
        };
        let obs = observed_bound(&log, i as u8, i as u32 + 1);
        if obs.is_empty() {
            continue;
        }
        if obs.iter().any(|v| v.to_bits() != obs[0].to_bits()) {
            // two different values seen by one construction: C09 judges that
            probe("c05_ambiguous_construction_skipped");
            continue;
        }
        quiet_set_infinity(obs[0]);
        with_sim(|s| s.clocks[0] = Clock::new(p.profile.clone()));
        let solo = run_prog(100 + i as u32, p);
        if let Some(d) = diff_results(&conc, &solo, true) {
            out.violations.push(Violation::new(
                "C05.concurrent_differs_from_solo",
                format!(
                    "thread {} ({}): result under the interleaving differs from the same program run alone: {}",
                    i,
                    p.prob.describe(),
                    d
                ),
            ));
        }
        summaries.push(format!(
            "t{}: {} -> {}",
            i,
            p.prob.describe(),
            conc.snaps.iter().map(|s| format!("{:?}@{}", s.status, s.iterations)).collect::<Vec<_>>().join(",")
        ));
    }
    quiet_set_infinity(clarabel::INFINITY_DEFAULT);
    out.nontrivial = switches > 0;
    out.summary = format!(
        "concurrent: {} solver threads + {} setter threads, {} hand-offs inside solves | {}",
        nsolvers,
        nsetters,
        switches,
        summaries.join(" || ")
    );
    out
}

/// the same solver solved twice / after an interrupted solve
fn run_resolve(opts: &GenOpts) -> RunOutcome {
    let mut out = RunOutcome::default();
    // badly scaled data as well: that an identical call repeats bit for bit does not depend on
    // the solve going well (a failed initial KKT solve, a breakdown at iteration 1, ...)
    let mut opts = opts.clone();
    if chance("hostile_scaling", 1, 2) {
        // (with the larger shapes of the thorough tier in both tiers: breakdowns of the
        // initial KKT solve need some size)
        probe("c05_resolve_on_badly_scaled_problem");
        opts = GenOpts::thorough();
        opts.max_scale_pow = [8, 16, 24][choose("scale_pow", 3) as usize];
    }
    let opts = &opts;
    let prob = with_sim(|s| gen_problem(&mut s.cs, opts));
    let settings = with_sim(|s| gen_settings(&mut s.cs, false));
    let mut profile = ClockProfile::fine(choose("clkseed", 1 << 16) as u64);
    profile.creep = 1_000_000;
    with_sim(|s| s.clocks[0] = Clock::new(profile.clone()));
    api(format!("problem {}", prob.describe()));
    api(format!("settings {}", describe_settings(&settings)));
    // reference: a fresh solver, one uninterrupted solve
    let Ok(mut fresh) = sv_new(0, &prob, settings.clone()) else {
        probe("c05_panic_skipped");
        return out;
    };
    fresh.print_to_sink();
    let Ok(first) = sv_solve(0, &mut fresh) else {
        probe("c05_panic_skipped");
        return out;
    };
    // second solve on the same object
    match sv_solve(0, &mut fresh) {
        Ok(second) => {
            if let Some(d) = second.diff_numeric(&first) {
                out.violations.push(Violation::new(
                    "C05.resolve_differs",
                    format!("second solve() of the same solver differs from the first: {} [{}]", d, prob.describe()),
                ));
            }
        }
        Err(e) => out.violations.push(Violation::new(
            "C05.resolve_panicked",
            format!("second solve() panicked: {}", e),
        )),
    }
    // interrupted solve(s), then a full solve
    let Ok(mut s2) = sv_new(1, &prob, settings.clone()) else {
        return out;
    };
    s2.print_to_sink();
    let ncuts = 1 + choose("ncuts", 2);
    let mut cuts = vec![];
    for _ in 0..ncuts {
        if flag("cut_by_time") {
            s2.settings.time_limit = secs(choose("at", 300) as u64 * 1_000_000);
            s2.settings.max_iter = settings.max_iter;
        } else {
            s2.settings.time_limit = f64::INFINITY;
            s2.settings.max_iter = choose("k", first.iterations + 1);
        }
        match sv_solve(1, &mut s2) {
            Ok(sn) => cuts.push(format!("{:?}@{}", sn.status, sn.iterations)),
            Err(_) => return out,
        }
    }
    s2.settings.time_limit = f64::INFINITY;
    s2.settings.max_iter = settings.max_iter;
    match sv_solve(1, &mut s2) {
        Ok(after) => {
            if let Some(d) = after.diff_numeric(&first) {
                out.violations.push(Violation::new(
                    "C05.solve_after_interruption_differs",
                    format!(
                        "solve after interrupted solves [{}] differs from an uninterrupted first solve: {} [{}]",
                        cuts.join(","),
                        d,
                        prob.describe()
                    ),
                ));
            }
        }
        Err(e) => out.violations.push(Violation::new(
            "C05.resolve_panicked",
            format!("solve after interruption panicked: {}", e),
        )),
    }
    out.nontrivial = true;
    out.summary = format!(
        "re-solve: {} | {} | first {:?}@{} | cuts {}",
        prob.describe(),
        describe_settings(&settings),
        first.status,
        first.iterations,
        cuts.join(",")
    );
    out
}
