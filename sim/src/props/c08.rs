//! C08 — updating problem data in place is equivalent to rebuilding.
//!
//! Histories of update_P/q/A/b/update_data calls in every argument form,
//! valid and invalid (rejected half-way), interleaved with solves that are
//! cut by max_iter or by the simulated clock, checked operation by operation
//! against reference model R2 (plain unscaled copies of the data) and, after
//! every solve, against a freshly constructed solver on the model state.

use crate::gen::*;
use crate::harness::*;
use crate::props::c03::check_report;
use crate::refmath::*;
use crate::simcore::*;
use crate::Tier;
use clarabel::algebra::CscMatrix;
use clarabel::solver::{DefaultSettings, DefaultSolver, SolverStatus};
use std::iter::zip;
use std::panic::{catch_unwind, AssertUnwindSafe};

#[derive(Clone, Debug, PartialEq)]
pub struct Model {
    pub p: Vec<f64>,
    pub q: Vec<f64>,
    pub a: Vec<f64>,
    pub b: Vec<f64>,
}

#[derive(Clone, Copy, Debug, PartialEq)]
pub enum Part {
    P,
    Q,
    A,
    B,
}

#[derive(Clone, Debug)]
pub enum Upd {
    Full(Vec<f64>),
    Matrix(Mat),
    Tuple(Vec<usize>, Vec<f64>),
    Zip(Vec<usize>, Vec<f64>),
    EmptyArr,
}

impl Upd {
    fn short(&self) -> String {
        match self {
            Upd::Full(v) => format!("Full(len {})", v.len()),
            Upd::Matrix(m) => format!("Matrix({}x{} nnz {})", m.m, m.n, m.nnz()),
            Upd::Tuple(i, v) => format!("Tuple({:?},{} vals)", i, v.len()),
            Upd::Zip(i, v) => format!("Zip({:?},{} vals)", i, v.len()),
            Upd::EmptyArr => "[]".to_string(),
        }
    }
    fn is_empty_update(&self) -> bool {
        match self {
            Upd::Full(v) => v.is_empty(),
            Upd::EmptyArr => true,
            Upd::Tuple(i, v) | Upd::Zip(i, v) => i.is_empty() || v.is_empty(),
            Upd::Matrix(_) => false,
        }
    }
}

fn model_prob(base: &Prob, m: &Model) -> Prob {
    let mut p = base.clone();
    p.p_triu.nzval = m.p.clone();
    p.p_user = p.p_triu.clone();
    p.q = m.q.clone();
    p.a.nzval = m.a.clone();
    p.b = m.b.clone();
    p
}

/// model semantics of one update: (accepted?, admissible post-states)
fn model_apply(cur: &[f64], upd: &Upd, pattern: Option<&Mat>) -> (bool, Vec<Vec<f64>>) {
    match upd {
        Upd::EmptyArr => (true, vec![cur.to_vec()]),
        Upd::Full(v) => {
            if v.is_empty() {
                (true, vec![cur.to_vec()])
            } else if v.len() == cur.len() {
                (true, vec![v.clone()])
            } else {
                (false, vec![cur.to_vec()])
            }
        }
        Upd::Matrix(m) => {
            let pat = pattern.expect("matrix update of a vector");
            if m.m == pat.m && m.n == pat.n && m.colptr == pat.colptr && m.rowval == pat.rowval {
                (true, vec![m.nzval.clone()])
            } else {
                (false, vec![cur.to_vec()])
            }
        }
        Upd::Tuple(idx, vals) | Upd::Zip(idx, vals) => {
            let mut st = cur.to_vec();
            for (&i, &v) in zip(idx, vals) {
                if i >= st.len() {
                    // rejected: untouched, or the prefix before the bad index applied
                    let mut alts = vec![cur.to_vec()];
                    if st != cur {
                        alts.push(st);
                    }
                    return (false, alts);
                }
                st[i] = v;
            }
            (true, vec![st])
        }
    }
}

fn call_update(
    solver: &mut DefaultSolver<f64>,
    part: Part,
    upd: &Upd,
) -> Result<Result<(), String>, String> {
    let r = catch_unwind(AssertUnwindSafe(|| {
        macro_rules! go {
            ($arg:expr) => {
                match part {
                    Part::P => solver.update_P($arg),
                    Part::A => solver.update_A($arg),
                    _ => unreachable!(),
                }
            };
        }
        macro_rules! gov {
            ($arg:expr) => {
                match part {
                    Part::Q => solver.update_q($arg),
                    Part::B => solver.update_b($arg),
                    _ => unreachable!(),
                }
            };
        }
        let is_mat = matches!(part, Part::P | Part::A);
        let r = match upd {
            Upd::Full(v) => {
                if is_mat {
                    go!(v)
                } else {
                    gov!(v)
                }
            }
            Upd::Matrix(m) => {
                let c: CscMatrix<f64> = m.to_clarabel();
                go!(&c)
            }
            Upd::Tuple(i, v) => {
                let t = (i.clone(), v.clone());
                if is_mat {
                    go!(&t)
                } else {
                    gov!(&t)
                }
            }
            Upd::Zip(i, v) => {
                let z = zip(i.iter(), v.iter());
                if is_mat {
                    go!(&z)
                } else {
                    gov!(&z)
                }
            }
            Upd::EmptyArr => {
                let e: [f64; 0] = [];
                if is_mat {
                    go!(&e)
                } else {
                    gov!(&e)
                }
            }
        };
        r.map_err(|e| format!("{:?}", e))
    }));
    r.map_err(|e| crate::panic_message(&e))
}

/// does the solver's internal (scaled) data equal this model state?
fn internal_matches(
    solver: &DefaultSolver<f64>,
    base: &Prob,
    m: &Model,
    max_ulps: u64,
) -> Result<(), String> {
    let d = &solver.data.equilibration.d;
    let e = &solver.data.equilibration.e;
    let c = solver.data.equilibration.c;
    let pc = base.p_triu.coords();
    if solver.data.P.nzval.len() != m.p.len() || solver.data.A.nzval.len() != m.a.len() {
        return Err("internal nnz differs from the model".to_string());
    }
    for (k, &(i, j)) in pc.iter().enumerate() {
        let want = d[i] * d[j] * c * m.p[k];
        let got = solver.data.P.nzval[k];
        if ulps(want, got) > max_ulps {
            return Err(format!("P[{}] internal {:e} vs model {:e}", k, got, want));
        }
    }
    for j in 0..base.n {
        let want = m.q[j] * d[j] * c;
        let got = solver.data.q[j];
        if ulps(want, got) > max_ulps {
            return Err(format!("q[{}] internal {:e} vs model {:e}", j, got, want));
        }
    }
    let ac = base.a.coords();
    for (k, &(i, j)) in ac.iter().enumerate() {
        let want = e[i] * d[j] * m.a[k];
        let got = solver.data.A.nzval[k];
        if ulps(want, got) > max_ulps {
            return Err(format!("A[{}] internal {:e} vs model {:e}", k, got, want));
        }
    }
    for i in 0..base.m {
        let want = m.b[i] * e[i];
        let got = solver.data.b[i];
        if ulps(want, got) > max_ulps {
            return Err(format!("b[{}] internal {:e} vs model {:e}", i, got, want));
        }
    }
    Ok(())
}

/// the factorisation sees the data the residuals see
fn kkt_in_sync(solver: &DefaultSolver<f64>, base: &Prob) -> Result<(), String> {
    let (kp, ka, lp, la) = solver.kktsystem.verif_kkt_view();
    if kp != solver.data.P.nzval {
        let k = zip(&kp, &solver.data.P.nzval).position(|(a, b)| a != b).unwrap_or(0);
        return Err(format!(
            "KKT copy of P differs from data.P at entry {}: {:e} vs {:e}",
            k,
            kp.get(k).copied().unwrap_or(f64::NAN),
            solver.data.P.nzval.get(k).copied().unwrap_or(f64::NAN)
        ));
    }
    if ka != solver.data.A.nzval {
        let k = zip(&ka, &solver.data.A.nzval).position(|(a, b)| a != b).unwrap_or(0);
        return Err(format!(
            "KKT copy of A differs from data.A at entry {}: {:e} vs {:e}",
            k,
            ka.get(k).copied().unwrap_or(f64::NAN),
            solver.data.A.nzval.get(k).copied().unwrap_or(f64::NAN)
        ));
    }
    if let Some(la) = la {
        if la != solver.data.A.nzval {
            return Err("LDL engine's copy of A differs from data.A".to_string());
        }
    }
    if let Some(lp) = lp {
        // diagonal entries carry the static regularisation after a factorisation
        for (k, &(i, j)) in base.p_triu.coords().iter().enumerate() {
            if i != j && lp[k] != solver.data.P.nzval[k] {
                return Err(format!("LDL engine's copy of P differs from data.P at entry {}", k));
            }
        }
    }
    Ok(())
}

fn definite(s: SolverStatus) -> Option<u8> {
    match s {
        SolverStatus::Solved => Some(0),
        SolverStatus::PrimalInfeasible => Some(1),
        SolverStatus::DualInfeasible => Some(2),
        _ => None,
    }
}

/// Is this definite verdict backed, independently, by what was returned?  (generous
/// factors: the point is to tell a sound answer from numerical garbage, not to re-judge
/// the solver's tolerances - that is C01/C02's business)
pub fn verdict_is_backed(prob: &Prob, eff: &Effective, st: &DefaultSettings<f64>, s: &Snap) -> bool {
    let finite = s.x.iter().chain(&s.s).chain(&s.z).all(|v| v.is_finite());
    if !finite {
        return false;
    }
    let zk: Vec<f64> = (0..prob.m).map(|i| if eff.keep[i] { s.z[i] } else { 0.0 }).collect();
    match s.status {
        SolverStatus::Solved => {
            let r = recompute(prob, eff, &s.x, &s.s, &s.z);
            let gap = (r.obj.v - r.obj_dual.v).abs();
            let den = 1.0f64.max(r.obj.v.abs().min(r.obj_dual.v.abs()));
            r.r_prim <= 100.0 * st.tol_feas
                && r.r_dual <= 100.0 * st.tol_feas
                && (gap <= 100.0 * st.tol_gap_abs || gap / den <= 100.0 * st.tol_gap_rel)
        }
        SolverStatus::PrimalInfeasible => {
            let bk: Vec<f64> = (0..prob.m).map(|i| if eff.keep[i] { eff.b_capped[i] } else { 0.0 }).collect();
            let bz = dot_t(&bk, &zk).v;
            let (atz, _) = mul_t(&prob.a, &zk);
            // a certificate whose b'z is at rounding level relative to |b||z| certifies nothing
            bz < 0.0
                && bz.abs() >= 1e-6 * norm2(&bk) * norm2(&zk)
                && norm2(&atz) <= 1e-3 * bz.abs()
        }
        SolverStatus::DualInfeasible => {
            let qx = dot_t(&prob.q, &s.x).v;
            let (px, _) = symmul(&prob.p_triu, &s.x);
            let (ax, _) = mul(&prob.a, &s.x);
            let axs: Vec<f64> = (0..prob.m).map(|i| if eff.keep[i] { ax[i] + s.s[i] } else { 0.0 }).collect();
            let lim = 1e-3 * qx.abs();
            qx < 0.0
                && qx.abs() >= 1e-6 * norm2(&prob.q) * norm2(&s.x)
                && norm2(&px) <= lim
                && norm2(&axs) <= lim
        }
        _ => false,
    }
}

/// weak duality across two runs on the same data: returns the allowed |p1-p2|
pub fn objective_slack(prob: &Prob, eff: &Effective, s1: &Snap, s2: &Snap) -> f64 {
    let res = |s: &Snap| -> (Vec<f64>, Vec<f64>) {
        let (ax, _) = mul(&prob.a, &s.x);
        let rp: Vec<f64> = (0..prob.m)
            .map(|i| if eff.keep[i] { ax[i] + s.s[i] - eff.b_capped[i] } else { 0.0 })
            .collect();
        let zk: Vec<f64> = (0..prob.m).map(|i| if eff.keep[i] { s.z[i] } else { 0.0 }).collect();
        let (px, _) = symmul(&prob.p_triu, &s.x);
        let (atz, _) = mul_t(&prob.a, &zk);
        let rd: Vec<f64> = (0..prob.n).map(|j| px[j] + atz[j] + prob.q[j]).collect();
        (rp, rd)
    };
    let (rp1, rd1) = res(s1);
    let (rp2, rd2) = res(s2);
    let absdot = |a: &[f64], b: &[f64]| dot_t(a, b).v.abs() + REL * dot_t(a, b).abs;
    let sz = |s: &Snap, z: &Snap| {
        let mut v = 0.0;
        for i in 0..prob.m {
            if eff.keep[i] {
                v += s.s[i] * z.z[i];
            }
        }
        (-v).max(0.0)
    };
    let slack12 = absdot(&rd2, &s1.x) + absdot(&rp1, &s2.z) + sz(s1, s2);
    let slack21 = absdot(&rd1, &s2.x) + absdot(&rp2, &s1.z) + sz(s2, s1);
    let gap1 = (s1.obj_val - s1.obj_val_dual).abs();
    let gap2 = (s2.obj_val - s2.obj_val_dual).abs();
    let scale = s1.obj_val.abs().max(s2.obj_val.abs()).max(1.0);
    if std::env::var("SIM_DEBUG").is_ok() {
        eprintln!(
            "objective_slack: p1={:e} d1={:e} p2={:e} d2={:e} gap1={:e} gap2={:e} slack12={:e} slack21={:e} |rp1|={:e} |rd1|={:e} |rp2|={:e} |rd2|={:e} |x1|={:e} |z1|={:e}",
            s1.obj_val, s1.obj_val_dual, s2.obj_val, s2.obj_val_dual, gap1, gap2, slack12, slack21,
            norm2(&rp1), norm2(&rd1), norm2(&rp2), norm2(&rd2), norm2(&s1.x), norm2(&s1.z)
        );
    }
    // the reported objectives are themselves sums with cancellation (x'Px/2 + q'x):
    // allow the rounding of those sums, 64 eps of the absolute terms
    let r1 = recompute(prob, eff, &s1.x, &s1.s, &s1.z);
    let r2 = recompute(prob, eff, &s2.x, &s2.s, &s2.z);
    let rounding = 64.0 * f64::EPSILON * (r1.obj.abs + r1.obj_dual.abs + r2.obj.abs + r2.obj_dual.abs);
    (gap1 + slack21).max(gap2 + slack12) + rounding + 1e-12 * scale
}

fn fresh_solve(
    sid: u32,
    prob: &Prob,
    settings: &DefaultSettings<f64>,
) -> Option<(Snap, DefaultSolver<f64>)> {
    let mut st = settings.clone();
    st.time_limit = f64::INFINITY;
    let mut s = sv_new(sid, prob, st).ok()?;
    use clarabel::io::ConfigurablePrintTarget;
    s.print_to_sink();
    let snap = sv_solve(sid, &mut s).ok()?;
    Some((snap, s))
}

fn gen_values(cur: &[f64], part: Part, base: &Prob) -> Vec<f64> {
    // new full-length values; P stays PSD (positive rescaling / diagonal bump)
    match part {
        Part::P => {
            let f = [2.0, 0.5, 1.5, 1.0][choose("pf", 4) as usize];
            let bump = flag("pbump");
            let coords = base.p_triu.coords();
            cur.iter()
                .enumerate()
                .map(|(k, v)| {
                    let (i, j) = coords[k];
                    if i == j && bump {
                        v * f + 1.0
                    } else {
                        v * f
                    }
                })
                .collect()
        }
        _ => cur
            .iter()
            .map(|v| {
                if chance("chg", 1, 2) {
                    let s = with_sim(|s| s.cs.small("nv"));
                    match choose("how", 3) {
                        0 => v + 0.25 * s,
                        1 => v * s.abs().max(0.1),
                        _ => s,
                    }
                } else {
                    *v
                }
            })
            .collect(),
    }
}

fn gen_update(part: Part, cur: &[f64], base: &Prob) -> Upd {
    let n = cur.len();
    let is_mat = matches!(part, Part::P | Part::A);
    let pattern = match part {
        Part::P => Some(&base.p_triu),
        Part::A => Some(&base.a),
        _ => None,
    };
    let nforms = if is_mat { 6 } else { 5 };
    let form = choose("form", nforms);
    let invalid = chance("invalid", 1, 4);
    let newv = gen_values(cur, part, base);
    match form {
        0 => {
            if invalid {
                let mut v = newv;
                if flag("longer") || v.is_empty() {
                    v.push(1.0);
                } else {
                    v.pop();
                }
                if v.is_empty() {
                    v.push(1.0);
                    v.push(2.0);
                }
                Upd::Full(v)
            } else {
                Upd::Full(newv)
            }
        }
        1 | 2 => {
            // indexed: a few entries; invalid = an out-of-range index after k valid ones
            let cnt = if n == 0 { 0 } else { 1 + choose("cnt", 3.min(n as u32)) as usize };
            let mut idx = vec![];
            let mut vals = vec![];
            for _ in 0..cnt {
                let i = choose("idx", n as u32) as usize;
                idx.push(i);
                // P: only ever increase diagonal entries / rescale to stay PSD
                let v = if part == Part::P {
                    let (r, c) = base.p_triu.coord(i);
                    if r == c {
                        cur[i].abs() * 2.0 + 1.0
                    } else {
                        cur[i]
                    }
                } else {
                    newv[i]
                };
                vals.push(v);
            }
            if invalid {
                let pos = choose("badpos", idx.len() as u32 + 1) as usize;
                idx.insert(pos, n + choose("over", 3) as usize);
                vals.insert(pos, 7.0);
            }
            if form == 1 {
                Upd::Tuple(idx, vals)
            } else {
                Upd::Zip(idx, vals)
            }
        }
        3 => Upd::EmptyArr,
        4 => Upd::Full(vec![]),
        _ => {
            let pat = pattern.unwrap();
            let mut m = pat.clone();
            m.nzval = newv;
            if invalid && m.nnz() > 0 && chance("samennz", 1, 3) {
                // same shape and entry count, pattern differing in one array only
                let k = choose("movek", m.nnz() as u32) as usize;
                let (r, j) = m.coord(k);
                let used: Vec<usize> = m.rowval[m.colptr[j]..m.colptr[j + 1]].to_vec();
                let free: Vec<usize> = (0..m.m).filter(|i| !used.contains(i)).collect();
                if !free.is_empty() && flag("moverow") {
                    // the entry sits in another row of its column (rowval differs, colptr same)
                    probe("c08_mismatch_rowval_only");
                    let nr = free[choose("newrow", free.len() as u32) as usize];
                    let (lo, hi) = (m.colptr[j], m.colptr[j + 1]);
                    let mut col: Vec<(usize, f64)> =
                        (lo..hi).map(|t| (if t == k { nr } else { m.rowval[t] }, m.nzval[t])).collect();
                    col.sort_by_key(|e| e.0);
                    for (t, (rr, vv)) in col.into_iter().enumerate() {
                        m.rowval[lo + t] = rr;
                        m.nzval[lo + t] = vv;
                    }
                    let _ = r;
                } else if j + 1 < m.n && m.colptr[j + 1] > m.colptr[j] {
                    // the last entry of column j now belongs to column j+1 (colptr differs, rowval same)
                    probe("c08_mismatch_colptr_only");
                    m.colptr[j + 1] -= 1;
                } else if j > 0 {
                    // the first entry of column j now belongs to column j-1
                    probe("c08_mismatch_colptr_only");
                    m.colptr[j] += 1;
                } else {
                    m.n += 1;
                    let last = *m.colptr.last().unwrap();
                    m.colptr.push(last);
                }
            } else if invalid {
                if m.nnz() > 0 && flag("dropentry") {
                    // remove one stored entry: same shape, different pattern
                    let k = choose("dropk", m.nnz() as u32) as usize;
                    let (_, j) = m.coord(k);
                    m.rowval.remove(k);
                    m.nzval.remove(k);
                    for c in (j + 1)..=m.n {
                        m.colptr[c] -= 1;
                    }
                } else {
                    // different shape: one more (empty) column
                    m.n += 1;
                    let last = *m.colptr.last().unwrap();
                    m.colptr.push(last);
                }
            }
            Upd::Matrix(m)
        }
    }
}

/// an update that keeps a planted strictly feasible pair: new b from a new
/// primal point, new q from a new dual point, or new (P, q, A, b) together
#[allow(clippy::type_complexity)]
fn gen_planted_update(
    base: &Prob,
    model: &Model,
    xp: &[f64],
    xd: &[f64],
    z0: &[f64],
) -> (Vec<(Part, Upd)>, (Vec<f64>, Vec<f64>, Vec<f64>)) {
    let fresh_primal = |a_vals: &[f64]| -> (Vec<f64>, Vec<f64>) {
        let xp2: Vec<f64> = (0..base.n).map(|_| with_sim(|s| s.cs.small("xp"))).collect();
        let mut s0 = vec![];
        for c in &base.cones {
            s0.extend(with_sim(|s| interior_point(&mut s.cs, c, false)));
        }
        let mut a = base.a.clone();
        a.nzval = a_vals.to_vec();
        let (ax, _) = mul(&a, &xp2);
        let b: Vec<f64> = (0..base.m).map(|i| ax[i] + s0[i]).collect();
        (xp2, b)
    };
    let fresh_dual = |p_vals: &[f64], a_vals: &[f64], xd: &[f64]| -> (Vec<f64>, Vec<f64>) {
        let mut z2 = vec![];
        for c in &base.cones {
            z2.extend(with_sim(|s| interior_point(&mut s.cs, c, true)));
        }
        let mut a = base.a.clone();
        a.nzval = a_vals.to_vec();
        let mut p = base.p_triu.clone();
        p.nzval = p_vals.to_vec();
        let (px, _) = symmul(&p, xd);
        let (atz, _) = mul_t(&a, &z2);
        let q: Vec<f64> = (0..base.n).map(|j| -px[j] - atz[j]).collect();
        (z2, q)
    };
    let invalid = chance("invalid", 1, 5);
    let spoil = |mut v: Vec<f64>| -> Vec<f64> {
        if v.len() > 1 && flag("shorter") {
            v.pop();
        } else {
            v.push(1.0);
        }
        v
    };
    match choose("pl_kind", 3) {
        0 => {
            let (xp2, b) = fresh_primal(&model.a);
            let b = if invalid { spoil(b) } else { b };
            (vec![(Part::B, Upd::Full(b))], (xp2, xd.to_vec(), z0.to_vec()))
        }
        1 => {
            let (z2, q) = fresh_dual(&model.p, &model.a, xd);
            let q = if invalid { spoil(q) } else { q };
            (vec![(Part::Q, Upd::Full(q))], (xp.to_vec(), xd.to_vec(), z2))
        }
        _ => {
            let p2 = gen_values(&model.p, Part::P, base);
            let a2 = gen_values(&model.a, Part::A, base);
            let (xp2, b) = fresh_primal(&a2);
            let (z2, q) = fresh_dual(&p2, &a2, xd);
            let b = if invalid { spoil(b) } else { b };
            (
                vec![
                    (Part::P, Upd::Full(p2)),
                    (Part::Q, Upd::Full(q)),
                    (Part::A, Upd::Full(a2)),
                    (Part::B, Upd::Full(b)),
                ],
                (xp2, xd.to_vec(), z2),
            )
        }
    }
}

pub fn run(tier: Tier) -> RunOutcome {
    let mut out = RunOutcome::default();
    let mut opts = match tier {
        Tier::Quick => GenOpts::quick(),
        Tier::Thorough => GenOpts::thorough(),
    };
    opts.allow_infeasible = false;
    if std::env::var("SIM_HOSTILE").is_ok() {
        opts = GenOpts::thorough();
        opts.allow_infeasible = false;
        opts.max_scale_pow = 16;
    }
    let mut base = with_sim(|s| gen_problem(&mut s.cs, &opts));
    let mut settings = with_sim(|s| gen_settings(&mut s.cs, false));
    // updates need presolve reductions to be absent; mostly switch presolve off,
    // sometimes keep it on with infinite bounds so that every update is rejected
    let bound = with_sim(|s| s.inf_model);
    let presolve_case = chance("presolve_case", 1, 6);
    if presolve_case {
        settings.presolve_enable = true;
        crate::props::c20::plant_infinite_bounds(&mut base, bound, true);
    }
    let eff0 = effective(&base, bound, settings.presolve_enable);
    let updates_allowed = eff0.n_dropped == 0;
    // the solver keeps P as an upper triangle
    let mut model = Model {
        p: base.p_triu.nzval.clone(),
        q: base.q.clone(),
        a: base.a.nzval.clone(),
        b: eff0.b_capped.clone(),
    };
    let model0 = Model {
        b: base.b.clone(),
        ..model.clone()
    };
    let equil = settings.equilibrate_enable;
    let max_ulps = if equil { 64 } else { 0 };
    // planted strictly feasible primal point (xp, via s = b - A xp) and dual point (xd, z0);
    // in planted mode every accepted update keeps such a pair, so the updated
    // problem stays well-posed by construction
    let (mut xp, mut xd, mut z0) = match &base.planted {
        Some((x, _, z)) => (x.clone(), x.clone(), z.clone()),
        None => (vec![0.0; base.n], vec![0.0; base.n], vec![0.0; base.m]),
    };
    let planted_mode = base.planted.is_some() && flag("planted_mode");

    let mut profile = ClockProfile::fine(choose("clkseed", 1 << 16) as u64);
    profile.creep = 1_000_000;
    with_sim(|s| s.clocks[0] = Clock::new(profile.clone()));
    api(format!("problem {}", base.describe()));
    api(format!("settings {}", describe_settings(&settings)));

    let mut solver = match sv_new(1, &base, settings.clone()) {
        Ok(s) => s,
        Err(_) => {
            probe("c08_panic_skipped");
            return out;
        }
    };
    use clarabel::io::ConfigurablePrintTarget;
    solver.print_to_sink();
    if solver.is_data_update_allowed() != updates_allowed {
        out.violations.push(Violation::new(
            "C08.update_allowed_flag",
            format!(
                "is_data_update_allowed() = {} but the model says {} ({} rows dropped)",
                !updates_allowed, updates_allowed, eff0.n_dropped
            ),
        ));
    }

    let nops = 2 + choose("nops", if tier == Tier::Quick { 7 } else { 11 }) as usize;
    let mut n_accepted = 0;
    let mut n_rejected = 0;
    let mut n_solves_after_update = 0;
    let mut dirty = false; // an accepted update since the last solve
    let mut had_failure = false; // an earlier solve on this object gave up numerically
    let mut trace = vec![];
    let mut fresh_sid = 100;
    for opk in 0..nops {
        let last = opk + 1 == nops;
        let kind = if last { 0 } else { choose("op", 8) };
        match kind {
            0 | 1 | 2 => {
                // ---------------- solve ----------------
                let cut = choose("cut", 4);
                solver.settings.max_iter = 60;
                solver.settings.time_limit = f64::INFINITY;
                let mut compare = true;
                match cut {
                    1 => solver.settings.max_iter = choose("k", 12),
                    2 => {
                        // a time cut: the result is not compared with a fresh
                        // solver (its clock history differs), only what follows
                        let now = with_sim(|s| s.clocks[0].now);
                        let _ = now;
                        solver.settings.time_limit = secs(choose("at", 300) as u64 * 1_000_000);
                        compare = false;
                    }
                    _ => {}
                }
                let st_now = solver.settings.clone();
                let snap = match sv_solve(1, &mut solver) {
                    Ok(s) => s,
                    Err(e) => {
                        // a panic here is C04's business unless an update caused it
                        if n_accepted + n_rejected > 0 {
                            out.violations.push(Violation::new(
                                "C08.solve_panicked_after_update",
                                format!("solve panicked after updates: {} [{}]", e, trace.join("; ")),
                            ));
                        }
                        break;
                    }
                };
                trace.push(format!("Solve(cut {})->{:?}@{}", cut, snap.status, snap.iterations));
                // ---- (3) the linear system this solve factorised was built from the data the
                // residuals saw (a solve cut before its first KKT update has not used it)
                if snap.iterations >= 1 {
                    probe("c08_kkt_checked_after_solve");
                    if let Err(e) = kkt_in_sync(&solver, &base) {
                        out.violations.push(Violation::new(
                            "C08.kkt_out_of_sync",
                            format!("after [{}]: {}", trace.join("; "), e),
                        ));
                        break;
                    }
                }
                if dirty {
                    n_solves_after_update += 1;
                }
                dirty = false;
                let mprob = model_prob(&base, &model);
                // model b is already capped; rows are never dropped when updates are allowed
                let eff = if updates_allowed {
                    Effective {
                        keep: vec![true; base.m],
                        b_capped: model.b.clone(),
                        n_dropped: 0,
                    }
                } else {
                    eff0.clone()
                };
                let mprob_user = if updates_allowed {
                    mprob.clone()
                } else {
                    // nothing can have changed: the user's original problem
                    model_prob(&base, &model0)
                };
                // (6) the report is truthful for the model data
                for mut v in check_report(&mprob_user, &eff, &st_now, &snap, None, "updated solver") {
                    v.class = v.class.replace("C03.", "C08.report_");
                    out.violations.push(v);
                }
                if !compare {
                    probe("c08_time_cut_solves");
                    continue;
                }
                // fresh reference on the model state
                fresh_sid += 1;
                let Some((fsnap, _fs)) = fresh_solve(fresh_sid, &mprob_user, &st_now) else {
                    probe("c08_fresh_panic");
                    continue;
                };
                // an update that puts an "infinite" value into b is capped like at construction
                // (repaired defect F11), so nothing is relaxed for it
                if model.b.iter().any(|v| *v >= bound) {
                    probe("c08_infinite_b_after_update");
                }
                let infinite_b = false;
                let failed = |s: SolverStatus| {
                    matches!(s, SolverStatus::NumericalError | SolverStatus::InsufficientProgress)
                };
                let is_verdict = |s: SolverStatus| {
                    matches!(
                        s,
                        SolverStatus::Solved
                            | SolverStatus::PrimalInfeasible
                            | SolverStatus::DualInfeasible
                            | SolverStatus::AlmostSolved
                            | SolverStatus::AlmostPrimalInfeasible
                            | SolverStatus::AlmostDualInfeasible
                    )
                };
                let both_numerical_error = failed(snap.status) && failed(fsnap.status);
                let after_failure_no_verdict =
                    had_failure && !(is_verdict(snap.status) && is_verdict(fsnap.status));
                if failed(snap.status) {
                    had_failure = true;
                }
                // (Until the repairs F7 and F10 a solve after a numerically failed solve, and two
                // failed solves, were not compared: the failed solve left state behind.  With
                // both repaired the comparisons hold and are made; the probes only count.)
                if after_failure_no_verdict && !both_numerical_error {
                    probe("c08_no_verdict_after_earlier_failure_compared");
                }
                if both_numerical_error {
                    probe("c08_both_failed_compared");
                }
                if false {
                } else if !equil && !infinite_b {
                    // (4) bitwise
                    if let Some(d) = snap.diff_numeric(&fsnap) {
                        // diagnosis: does a previous solve on the same object matter?
                        let mut diag = String::new();
                        if updates_allowed {
                            let mk = || {
                                let mut s = st_now.clone();
                                s.time_limit = f64::INFINITY;
                                sv_new(900, &base, s).ok().map(|mut s| {
                                    s.print_to_sink();
                                    s
                                })
                            };
                            if let Some(mut h2) = mk() {
                                let _ = h2.update_data(&model.p, &model.q, &model.a, &model.b);
                                if let Ok(sn) = sv_solve(900, &mut h2) {
                                    diag += &format!(
                                        " | no previous solve + one update_data: {}",
                                        match sn.diff_numeric(&fsnap) { None => "equals fresh".to_string(), Some(d) => format!("differs ({})", d) }
                                    );
                                }
                            }
                            if let Some(mut h3) = mk() {
                                let _ = sv_solve(900, &mut h3);
                                let _ = h3.update_data(&model.p, &model.q, &model.a, &model.b);
                                if let Ok(sn) = sv_solve(900, &mut h3) {
                                    diag += &format!(
                                        " | previous solve + one update_data: {}",
                                        match sn.diff_numeric(&fsnap) { None => "equals fresh".to_string(), Some(d) => format!("differs ({})", d) }
                                    );
                                }
                            }
                            if let Some((_, mut f2)) = fresh_solve(901, &mprob_user, &st_now) {
                                if let Ok(sn) = sv_solve(901, &mut f2) {
                                    diag += &format!(
                                        " | fresh solver solved twice: second {}",
                                        match sn.diff_numeric(&fsnap) { None => "equals first".to_string(), Some(d) => format!("differs ({})", d) }
                                    );
                                }
                            }
                        }
                        out.violations.push(Violation::new(
                            "C08.differs_from_fresh",
                            format!(
                                "equilibration off: solve after [{}] differs from a fresh solver on the final data: {}{}",
                                trace.join("; "), d, diag
                            ),
                        ));
                    }
                } else {
                    // (5) verdict class and objective within the computable slack
                    let mut refs = vec![("fresh", fsnap.clone())];
                    if updates_allowed && n_accepted > 0 {
                        // history independence: original data + one update_data
                        fresh_sid += 1;
                        call(fresh_sid, "new", false, "history-independent reference".into());
                        if let Ok(mut s2) = sv_new(fresh_sid, &base, {
                            let mut s = st_now.clone();
                            s.time_limit = f64::INFINITY;
                            s
                        }) {
                            s2.print_to_sink();
                            let r = s2.update_data(&model.p, &model.q, &model.a, &model.b);
                            if r.is_ok() {
                                if let Ok(sn) = sv_solve(fresh_sid, &mut s2) {
                                    refs.push(("rebuilt-by-one-update", sn));
                                }
                            } else {
                                out.violations.push(Violation::new(
                                    "C08.wrong_return",
                                    format!("update_data with four full valid vectors was rejected: {:?}", r),
                                ));
                            }
                        }
                    }
                    // a verdict disagreement is judged only on problems where the verdict is a
                    // stable function of the data: a strictly feasible planted pair (verified
                    // independently) and at least one proper cone.  Equality-only problems with
                    // rank-deficient P have whole subspaces of optima; there the solver's own
                    // verdict flips between Solved and (spurious) infeasibility under
                    // rounding-level changes of the scaling, with or without any update.
                    let has_proper_cone = base.cones.iter().any(|c| !matches!(c, ConeSpec::Zero(_)));
                    let well_posed = base.planted.is_some()
                        && has_proper_cone
                        && planted_ok(&mprob_user, &xp, &xd, &z0);
                    if well_posed {
                        probe("c08_solves_on_well_posed_updated_problem");
                    }
                    for (name, rsnap) in refs {
                        match (definite(snap.status), definite(rsnap.status)) {
                            (Some(a), Some(b)) if a != b && !well_posed => {
                                // without a strictly feasible pair the verdict is not a stable
                                // function of the data in floating point (e.g. a problem that is
                                // both primal and dual infeasible admits either certificate)
                                probe("c08_ill_posed_disagreement_not_judged");
                            }
                            (Some(a), Some(b))
                                if a != b
                                    && !(verdict_is_backed(&mprob_user, &eff, &st_now, &snap)
                                        && verdict_is_backed(&mprob_user, &eff, &st_now, &rsnap)) =>
                            {
                                // one of the two verdicts is not backed by what that solver returned
                                // (an "infeasibility certificate" with a large A'z, a "solution" with
                                // large residuals): the disagreement is that solver's numerical failure
                                // on this input - C01/C02's subject, a pure function of its scaled data -
                                // and says nothing about the update mechanism, which the data, KKT and
                                // report oracles above check directly
                                probe("c08_unbacked_verdict_disagreement_not_judged");
                            }
                            (Some(a), Some(b)) if a != b => {
                                if std::env::var("SIM_DEBUG").is_ok() {
                                    for (nm, sn) in [("updated", &snap), (name, &rsnap)] {
                                        let (atz, _) = mul_t(&mprob_user.a, &sn.z);
                                        let (ax, _) = mul(&mprob_user.a, &sn.x);
                                        let axs: Vec<f64> = (0..mprob_user.m).map(|i| ax[i] + sn.s[i]).collect();
                                        eprintln!(
                                            "verdict dbg {}: {:?} it={} b'z={:e} |A'z|={:e} |z|={:e} q'x={:e} |Ax+s|={:e} |x|={:e}",
                                            nm, sn.status, sn.iterations,
                                            dot_t(&mprob_user.b, &sn.z).v, norm_inf(&atz), norm_inf(&sn.z),
                                            dot_t(&mprob_user.q, &sn.x).v, norm_inf(&axs), norm_inf(&sn.x)
                                        );
                                    }
                                }
                                out.violations.push(Violation::new(
                                    "C08.verdict_differs",
                                    format!(
                                        "solve after [{}] says {:?}, {} solver says {:?}",
                                        trace.join("; "), snap.status, name, rsnap.status
                                    ),
                                ));
                            }
                            (Some(0), Some(0)) => {
                                let slack = objective_slack(&mprob_user, &eff, &snap, &rsnap);
                                if (snap.obj_val - rsnap.obj_val).abs() > slack {
                                    out.violations.push(Violation::new(
                                        "C08.objective_differs",
                                        format!(
                                            "solve after [{}]: objective {:e} vs {} solver {:e}, allowed {:e}",
                                            trace.join("; "), snap.obj_val, name, rsnap.obj_val, slack
                                        ),
                                    ));
                                }
                                probe("c08_objective_compared");
                            }
                            (Some(_), Some(_)) => probe("c08_infeasible_agree"),
                            _ => probe("c08_indefinite_status_not_compared"),
                        }
                    }
                }
            }
            _ => {
                // ---------------- update ----------------
                let which = choose("part", 5);
                let mut new_planted: Option<(Vec<f64>, Vec<f64>, Vec<f64>)> = None;
                let parts: Vec<(Part, Upd)> = if planted_mode {
                    let (parts, np) = gen_planted_update(&base, &model, &xp, &xd, &z0);
                    new_planted = Some(np);
                    parts
                } else if which < 4 {
                    let part = [Part::P, Part::Q, Part::A, Part::B][which as usize];
                    let cur = match part {
                        Part::P => &model.p,
                        Part::Q => &model.q,
                        Part::A => &model.a,
                        Part::B => &model.b,
                    };
                    vec![(part, gen_update(part, cur, &base))]
                } else {
                    // update_data: four parts, all Vec or all tuples
                    let tuples = flag("ud_tuples");
                    [Part::P, Part::Q, Part::A, Part::B]
                        .iter()
                        .map(|&part| {
                            let cur = match part {
                                Part::P => &model.p,
                                Part::Q => &model.q,
                                Part::A => &model.a,
                                Part::B => &model.b,
                            };
                            let mut u = gen_update(part, cur, &base);
                            // coerce to the common form
                            u = match (tuples, u) {
                                (false, Upd::Full(v)) => Upd::Full(v),
                                (false, _) => Upd::Full(gen_values(cur, part, &base)),
                                (true, Upd::Tuple(i, v)) | (true, Upd::Zip(i, v)) => Upd::Tuple(i, v),
                                (true, _) => Upd::Tuple(vec![], vec![]),
                            };
                            (part, u)
                        })
                        .collect()
                };
                let is_ud = parts.len() == 4;
                let desc = parts
                    .iter()
                    .map(|(p, u)| format!("{:?}:{}", p, u.short()))
                    .collect::<Vec<_>>()
                    .join(" ");
                call(1, if is_ud { "update_data" } else { "update" }, false, desc.clone());
                // ---- model
                let mut admissible: Vec<Model> = vec![];
                let mut expect_ok = true;
                if !updates_allowed {
                    expect_ok = false;
                    admissible.push(model.clone());
                } else {
                    let mut states = vec![model.clone()];
                    for (part, u) in &parts {
                        let mut next = vec![];
                        let mut rejected = false;
                        for st in &states {
                            let (cur, pat) = match part {
                                Part::P => (&st.p, Some(&base.p_triu)),
                                Part::Q => (&st.q, None),
                                Part::A => (&st.a, Some(&base.a)),
                                Part::B => (&st.b, None),
                            };
                            let (ok, alts) = model_apply(cur, u, pat);
                            if !ok {
                                rejected = true;
                            }
                            for alt in alts {
                                let mut s2 = st.clone();
                                match part {
                                    Part::P => s2.p = alt,
                                    Part::Q => s2.q = alt,
                                    Part::A => s2.a = alt,
                                    // entries at or above the bound in force at construction are
                                    // capped, by an update as by the constructor (C09)
                                    Part::B => s2.b = alt.iter().map(|v| v.min(bound)).collect(),
                                }
                                next.push(s2);
                            }
                        }
                        states = next;
                        if rejected {
                            expect_ok = false;
                            break;
                        }
                    }
                    if !expect_ok {
                        states.push(model.clone()); // "or nothing"
                    }
                    admissible = states;
                }
                // ---- the solver
                // the user may edit the public settings at any time; whether updates are
                // allowed was settled by what the presolver did at construction
                let toggled = chance("toggle_presolve_setting", 1, 6);
                if toggled {
                    probe("c08_update_with_presolve_setting_toggled");
                    solver.settings.presolve_enable = !solver.settings.presolve_enable;
                }
                let result: Result<Result<(), String>, String> = if is_ud {
                    catch_unwind(AssertUnwindSafe(|| {
                        let all_full = parts.iter().all(|(_, u)| matches!(u, Upd::Full(_)));
                        if all_full {
                            let v: Vec<&Vec<f64>> = parts
                                .iter()
                                .map(|(_, u)| match u {
                                    Upd::Full(v) => v,
                                    _ => unreachable!(),
                                })
                                .collect();
                            solver.update_data(v[0], v[1], v[2], v[3]).map_err(|e| format!("{:?}", e))
                        } else {
                            let t: Vec<(Vec<usize>, Vec<f64>)> = parts
                                .iter()
                                .map(|(_, u)| match u {
                                    Upd::Tuple(i, v) => (i.clone(), v.clone()),
                                    _ => (vec![], vec![]),
                                })
                                .collect();
                            solver
                                .update_data(&t[0], &t[1], &t[2], &t[3])
                                .map_err(|e| format!("{:?}", e))
                        }
                    }))
                    .map_err(|e| crate::panic_message(&e))
                } else {
                    call_update(&mut solver, parts[0].0, &parts[0].1)
                };
                if toggled {
                    solver.settings.presolve_enable = !solver.settings.presolve_enable;
                }
                let all_empty = parts.iter().all(|(_, u)| u.is_empty_update());
                match &result {
                    Err(p) => {
                        call(1, "update", true, format!("panic: {}", p));
                        out.violations.push(Violation::new(
                            "C08.update_panicked",
                            format!("{} panicked: {}", desc, p),
                        ));
                        break;
                    }
                    Ok(r) => {
                        call(1, "update", true, format!("{:?}", r));
                        let ok = r.is_ok();
                        // empty updates under an active presolve: the property
                        // says both "error" and "no-op"; either is accepted
                        let judged = !(all_empty && !updates_allowed);
                        if judged && ok != expect_ok {
                            out.violations.push(Violation::new(
                                "C08.wrong_return",
                                format!("{} returned {:?}, model expects {}", desc, r, if expect_ok { "Ok" } else { "Err" }),
                            ));
                        }
                        if ok {
                            n_accepted += 1;
                            if expect_ok {
                                if let Some((a, b, c)) = new_planted.take() {
                                    xp = a;
                                    xd = b;
                                    z0 = c;
                                }
                            }
                            if !all_empty {
                                dirty = true;
                            }
                        } else {
                            n_rejected += 1;
                            probe("c08_rejected_updates");
                            if admissible.len() > 2 || (admissible.len() == 2 && admissible[0] != admissible[1]) {
                                probe("c08_rejected_after_partial_application_possible");
                            }
                        }
                        trace.push(format!("{}->{}", desc, if ok { "Ok" } else { "Err" }));
                    }
                }
                // ---- (2) internal data equals an admissible model state
                if updates_allowed {
                    let mut matched = None;
                    let mut why = String::new();
                    for st in &admissible {
                        match internal_matches(&solver, &base, st, max_ulps) {
                            Ok(()) => {
                                matched = Some(st.clone());
                                break;
                            }
                            Err(e) => why = e,
                        }
                    }
                    match matched {
                        Some(st) => {
                            if st != model && !expect_ok {
                                probe("c08_rejected_update_applied_prefix");
                            }
                            model = st;
                        }
                        None => {
                            out.violations.push(Violation::new(
                                if expect_ok { "C08.accepted_update_not_applied" } else { "C08.rejected_update_corrupted_data" },
                                format!("after {}: internal data match no admissible model state ({})", desc, why),
                            ));
                            break;
                        }
                    }
                }
                // (3) the KKT copy is judged after the next solve that used it: when an
                // implementation pushes accepted values into the KKT system (at the update,
                // or at the first KKT use of the next solve) is its own business
            }
        }
    }
    out.nontrivial = n_solves_after_update > 0 || n_rejected > 0;
    out.summary = format!(
        "{} | {} | updates_allowed={} | {}",
        base.describe(),
        describe_settings(&settings),
        updates_allowed,
        trace.join("; ")
    );
    out
}
