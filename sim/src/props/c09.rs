//! C09 — infinite bounds are removed and restored transparently; the bound is
//! the module-level value in force when the solver was built.
//!
//! Sequential and concurrent set_infinity/default_infinity histories around
//! (and *inside*) DefaultSolver::new, checked against reference model R3 (the
//! bound is a sequentially consistent register; construction must behave as
//! if it read it once) and a hand-reduced reference solver.

use crate::gen::*;
use crate::harness::*;
use crate::refmath::*;
use crate::simcore::*;
use crate::Tier;
use clarabel::solver::{DefaultSettings, DefaultSolver};

#[derive(Clone, Debug)]
pub enum Op {
    SetInf(f64),
    DefaultInf,
    New,
    Solve,
}

const BOUNDS: [f64; 6] = [1e20, 1e3, 1e6, 1e10, 1e15, f64::INFINITY];

fn pick_bound(tag: &str) -> f64 {
    BOUNDS[choose(tag, BOUNDS.len() as u32) as usize]
}

/// plant right-hand sides that are "infinite" for some of the candidate bounds
pub fn plant(prob: &mut Prob) -> usize {
    let row_cone = prob.row_cone();
    let mut planted = 0;
    for i in 0..prob.m {
        let cone = &prob.cones[row_cone[i]];
        if matches!(cone, ConeSpec::Zero(_)) {
            continue;
        }
        let nn = matches!(cone, ConeSpec::Nonneg(_) | ConeSpec::Soc(1));
        let p = if nn { 3 } else { 1 };
        if chance("infrow", p, 8) {
            let f = match choose("infmag", 8) {
                0 => 2e20,
                1 => 2e3,
                2 => 2e6,
                3 => 2e10,
                4 => 2e15,
                5 => f64::INFINITY,
                6 => 1e20, // exactly at the default bound
                _ => 1e6,  // exactly at a custom bound
            };
            prob.b[i] = f;
            planted += 1;
        }
    }
    planted
}

pub struct Built {
    pub sid: u32,
    pub prob: Prob,
    pub settings: DefaultSettings<f64>,
    pub solver: Option<DefaultSolver<f64>>,
    pub snaps: Vec<Snap>,
    pub panicked: Option<String>,
}

fn run_program(sid: u32, prob: &Prob, settings: &DefaultSettings<f64>, ops: &[Op]) -> Built {
    let mut b = Built {
        sid,
        prob: prob.clone(),
        settings: settings.clone(),
        solver: None,
        snaps: vec![],
        panicked: None,
    };
    for op in ops {
        match op {
            Op::SetInf(v) => sim_set_infinity(*v),
            Op::DefaultInf => sim_default_infinity(),
            Op::New => match sv_new(sid, prob, settings.clone()) {
                Ok(mut s) => {
                    use clarabel::io::ConfigurablePrintTarget;
                    s.print_to_sink();
                    b.solver = Some(s);
                }
                Err(e) => {
                    b.panicked = Some(e);
                    return b;
                }
            },
            Op::Solve => {
                if let Some(s) = b.solver.as_mut() {
                    match sv_solve(sid, s) {
                        Ok(sn) => b.snaps.push(sn),
                        Err(e) => {
                            b.panicked = Some(e);
                            b.solver = None;
                            return b;
                        }
                    }
                }
            }
        }
    }
    b
}

/// register values in force between invoke and return of `new` on solver sid
fn values_during_new(log: &[Ev], sid: u32, initial: f64) -> Vec<f64> {
    let mut cur = initial;
    let mut inside = false;
    let mut vals: Vec<f64> = vec![];
    for e in log {
        match &e.kind {
            EvKind::Note(s) if s.starts_with("inf_model=") => {
                if let Ok(bits) = s["inf_model=".len()..].parse::<u64>() {
                    cur = f64::from_bits(bits);
                    if inside && !vals.iter().any(|v| v.to_bits() == cur.to_bits()) {
                        vals.push(cur);
                    }
                }
            }
            EvKind::Call { sid: s, op, ret, .. } if *s == sid && *op == "new" => {
                if !*ret {
                    inside = true;
                    vals.push(cur);
                } else {
                    inside = false;
                }
            }
            _ => {}
        }
    }
    vals
}

/// everything the solver did must be explained by one bound v
fn explain(
    built: &Built,
    v: f64,
    reference: &mut dyn FnMut(&Prob, &DefaultSettings<f64>, usize) -> Option<Vec<Snap>>,
) -> Result<(), String> {
    let prob = &built.prob;
    let st = &built.settings;
    let eff = effective(prob, v, st.presolve_enable);
    let solver = built.solver.as_ref().ok_or("no solver")?;
    // (b) internal right-hand side = min(b, v) on kept rows, scaled by e
    let kept: Vec<usize> = (0..prob.m).filter(|i| eff.keep[*i]).collect();
    if solver.data.b.len() != kept.len() || solver.data.m != kept.len() {
        return Err(format!(
            "internal problem has {} rows, bound {:e} predicts {}",
            solver.data.b.len(),
            v,
            kept.len()
        ));
    }
    let e = &solver.data.equilibration.e;
    for (k, &i) in kept.iter().enumerate() {
        let want = eff.b_capped[i] * e[k];
        if ulps(want, solver.data.b[k]) > 64 {
            return Err(format!(
                "internal b[{}] (user row {}) = {:e}, bound {:e} predicts {:e}",
                k,
                i,
                solver.data.b[k] / e[k],
                v,
                eff.b_capped[i]
            ));
        }
    }
    if built.snaps.is_empty() {
        return Ok(());
    }
    // (c) reference: rows deleted by hand, b capped by hand
    let reduced = hand_reduce(prob, &eff);
    let refs = reference(&reduced, st, built.snaps.len()).ok_or("reference solver failed")?;
    for (k, snap) in built.snaps.iter().enumerate() {
        // (a) lengths, dropped rows carry z = 0 and s = the bound
        if snap.s.len() != prob.m || snap.z.len() != prob.m || snap.x.len() != prob.n {
            return Err(format!("solve #{}: returned lengths differ from the user's n, m", k));
        }
        for i in 0..prob.m {
            if !eff.keep[i] && (snap.z[i] != 0.0 || snap.s[i].to_bits() != v.to_bits()) {
                return Err(format!(
                    "solve #{}: dropped row {} has s = {:e}, z = {:e} (bound {:e})",
                    k, i, snap.s[i], snap.z[i], v
                ));
            }
        }
        let r = &refs[k];
        let proj = Snap {
            s: kept.iter().map(|&i| snap.s[i]).collect(),
            z: kept.iter().map(|&i| snap.z[i]).collect(),
            ..snap.clone()
        };
        if let Some(d) = proj.diff_numeric(r) {
            return Err(format!(
                "solve #{}: kept entries differ from the hand-reduced reference under bound {:e}: {}",
                k, v, d
            ));
        }
    }
    Ok(())
}

pub fn run(tier: Tier) -> RunOutcome {
    let mut out = RunOutcome::default();
    let mut opts = match tier {
        Tier::Quick => GenOpts::quick(),
        Tier::Thorough => GenOpts::thorough(),
    };
    opts.force_nonneg = true;
    opts.allow_empty = false;
    opts.allow_soc1 = true;
    let mode = choose("mode", 3); // 0: sequential; 1,2: concurrent
    let n_solver_threads = if mode == 0 { 1 } else { 1 + choose("nsolvers", 2) as usize };
    let n_setter_threads = if mode == 0 { 0 } else { 1 + choose("nsetters", 2) as usize };
    let nthreads = n_solver_threads + n_setter_threads;

    // generate all programs up-front
    let mut progs: Vec<(Prob, DefaultSettings<f64>, Vec<Op>)> = vec![];
    for _ in 0..n_solver_threads {
        let mut prob = with_sim(|s| gen_problem(&mut s.cs, &opts));
        let planted = plant(&mut prob);
        let mut st = with_sim(|s| gen_settings(&mut s.cs, false));
        if chance("presolve_off", 1, 4) {
            st.presolve_enable = false;
        } else {
            st.presolve_enable = true;
        }
        let _ = planted;
        let mut ops = vec![];
        let maybe_set = |ops: &mut Vec<Op>| {
            if mode == 0 && chance("set", 1, 2) {
                if chance("dflt", 1, 4) {
                    ops.push(Op::DefaultInf);
                } else {
                    ops.push(Op::SetInf(pick_bound("bound")));
                }
            }
        };
        maybe_set(&mut ops);
        ops.push(Op::New);
        maybe_set(&mut ops);
        ops.push(Op::Solve);
        if chance("resolve", 1, 2) {
            maybe_set(&mut ops);
            ops.push(Op::Solve);
        }
        progs.push((prob, st, ops));
    }
    let mut setters: Vec<Vec<Op>> = vec![];
    for _ in 0..n_setter_threads {
        let k = 1 + choose("nsets", 4) as usize;
        setters.push(
            (0..k)
                .map(|_| {
                    if chance("dflt", 1, 5) {
                        Op::DefaultInf
                    } else {
                        Op::SetInf(pick_bound("bound"))
                    }
                })
                .collect(),
        );
    }
    // initial register value
    let init = if chance("init_custom", 1, 3) { pick_bound("init") } else { 1e20 };
    quiet_set_infinity(init);
    with_sim(|s| {
        s.clocks = (0..nthreads.max(1))
            .map(|t| Clock::new(ClockProfile::fine(1000 + t as u64)))
            .collect();
        s.sched_bias = [1, 2, 4][s.cs.choose("bias", 3) as usize];
    });
    for (i, (p, st, ops)) in progs.iter().enumerate() {
        api(format!("program s{}: {} | {} | {:?}", i + 1, p.describe(), describe_settings(st), ops));
    }
    for (i, ops) in setters.iter().enumerate() {
        api(format!("setter t{}: {:?}", n_solver_threads + i, ops));
    }
    note(format!("inf_model={}", init.to_bits()));

    // ---- execute
    let builts: Vec<Built> = if mode == 0 {
        let (p, st, ops) = &progs[0];
        vec![run_program(1, p, st, ops)]
    } else {
        let mut bodies: Vec<Box<dyn FnOnce() -> Option<Built> + Send>> = vec![];
        for (i, (p, st, ops)) in progs.iter().cloned().enumerate() {
            bodies.push(Box::new(move || Some(run_program(i as u32 + 1, &p, &st, &ops))));
        }
        for ops in setters.iter().cloned() {
            bodies.push(Box::new(move || {
                for op in &ops {
                    match op {
                        Op::SetInf(v) => sim_set_infinity(*v),
                        Op::DefaultInf => sim_default_infinity(),
                        _ => {}
                    }
                }
                None
            }));
        }
        let results = run_threads(bodies);
        let mut v = vec![];
        for r in results {
            match r {
                Ok(Some(b)) => v.push(b),
                Ok(None) => {}
                Err(e) => {
                    out.violations.push(Violation::new("C09.thread_panicked", e));
                }
            }
        }
        v
    };

    // the real global must equal the register model
    let real = quiet_get_infinity();
    let model = with_sim(|s| s.inf_model);
    if real.to_bits() != model.to_bits() {
        out.violations.push(Violation::new(
            "C09.register_diverged",
            format!("get_infinity() = {:e} but the history of stores leaves {:e}", real, model),
        ));
    }

    // ---- quiescent phase: oracle
    let log = with_sim(|s| s.log.clone());
    let mut ambiguous_windows = 0;
    let mut summaries = vec![];
    for built in &builts {
        if let Some(e) = &built.panicked {
            // panics on well-formed input are C04's; but one provoked by a bound change is ours
            out.violations.push(Violation::new(
                "C09.panic",
                format!("s{} panicked: {} [{}]", built.sid, e, built.prob.describe()),
            ));
            continue;
        }
        let vals = values_during_new(&log, built.sid, init);
        if vals.len() > 1 {
            ambiguous_windows += 1;
            probe("c09_store_during_construction");
        }
        let mut fresh_sid = 100 * built.sid;
        let mut reference = |p: &Prob, st: &DefaultSettings<f64>, nsolves: usize| -> Option<Vec<Snap>> {
            fresh_sid += 1;
            let keep = quiet_get_infinity();
            quiet_set_infinity(f64::INFINITY);
            let mut r = None;
            if let Ok(mut s) = sv_new(fresh_sid, p, st.clone()) {
                use clarabel::io::ConfigurablePrintTarget;
                s.print_to_sink();
                let mut snaps = vec![];
                for _ in 0..nsolves {
                    match sv_solve(fresh_sid, &mut s) {
                        Ok(sn) => snaps.push(sn),
                        Err(_) => break,
                    }
                }
                if snaps.len() == nsolves {
                    r = Some(snaps);
                }
            }
            quiet_set_infinity(keep);
            r
        };
        let mut errs = vec![];
        let mut ok = false;
        for v in &vals {
            match explain(built, *v, &mut reference) {
                Ok(()) => {
                    ok = true;
                    break;
                }
                Err(e) => errs.push(format!("bound {:e}: {}", v, e)),
            }
        }
        let eff0 = effective(&built.prob, vals[0], built.settings.presolve_enable);
        if eff0.n_dropped > 0 {
            probe("c09_rows_dropped");
        }
        if built.prob.b.iter().zip(&eff0.b_capped).any(|(a, b)| a != b) {
            probe("c09_rows_capped_or_dropped");
        }
        if !ok {
            out.violations.push(Violation::new(
                "C09.no_single_bound",
                format!(
                    "s{}: no bound in force during construction {:?} explains the solver: {} [{} b={:?}]",
                    built.sid,
                    vals,
                    errs.join(" ; "),
                    built.prob.describe(),
                    built.prob.b
                ),
            ));
        }
        summaries.push(format!(
            "s{}: {} presolve={} bounds-during-new {:?} dropped {} -> {}",
            built.sid,
            built.prob.describe(),
            built.settings.presolve_enable,
            vals,
            eff0.n_dropped,
            built.snaps.iter().map(|s| format!("{:?}", s.status)).collect::<Vec<_>>().join(",")
        ));
    }
    quiet_set_infinity(clarabel::INFINITY_DEFAULT);
    out.nontrivial = builts.iter().any(|b| {
        let v0 = values_during_new(&log, b.sid, init);
        let e = effective(&b.prob, v0[0], b.settings.presolve_enable);
        e.n_dropped > 0 || b.prob.b.iter().zip(&e.b_capped).any(|(x, y)| x != y)
    }) || ambiguous_windows > 0;
    out.summary = format!("mode {} threads {} init {:e} | {}", mode, nthreads, init, summaries.join(" || "));
    out
}
