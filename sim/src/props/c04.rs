//! C04 — every solve terminates cleanly within its limits (clock clauses).
//!
//! Histories `New; Solve; [Solve ...]` under a simulated clock whose jump /
//! creep / stall position ranges over all clock reads of the run, checked
//! against reference model R1 (timermodel.rs) and against a reference
//! execution of the same history with a frozen clock and no time limit.

use crate::gen::*;
use crate::harness::*;
use crate::simcore::*;
use crate::timermodel::{analyse, SolveTrace};
use crate::Tier;
use clarabel::solver::{DefaultSettings, SolverStatus};

#[derive(Clone, Debug)]
pub struct SolveOp {
    pub time_limit: f64,
    pub max_iter: u32,
    /// edits of public settings fields *after* construction that must not change
    /// the internal problem (they are only read by the constructor)
    pub flip_presolve: bool,
    pub flip_equil: bool,
    /// toggle settings.verbose before this solve
    pub flip_verbose: bool,
}

impl Default for SolveOp {
    fn default() -> Self {
        SolveOp {
            time_limit: f64::INFINITY,
            max_iter: 60,
            flip_presolve: false,
            flip_equil: false,
            flip_verbose: false,
        }
    }
}

pub struct ExecResult {
    pub snaps: Vec<Result<Snap, String>>,
    pub new_err: Option<String>,
    pub reads_total: u64,
    /// the solver object, if it is still usable (no unwind through solve)
    pub solver: Option<clarabel::solver::DefaultSolver<f64>>,
    /// id of the simulated sink, when the target was a stream
    pub sink_id: Option<usize>,
}

/// where the solver's output goes
#[derive(Clone, Debug)]
pub enum Target {
    Buffer,
    Stream(SinkPlan),
    File(String),
    Sink,
    /// the process's real stdout (only used by the C20 child process)
    Stdout,
}

/// execute the history on solver `sid`
pub fn exec_history(
    sid: u32,
    prob: &Prob,
    settings: &DefaultSettings<f64>,
    ops: &[SolveOp],
    use_limits: bool,
    sink: Option<SinkPlan>,
) -> ExecResult {
    let target = match sink {
        Some(plan) => Target::Stream(plan),
        None => Target::Buffer,
    };
    exec_history_to(sid, prob, settings, ops, use_limits, &target)
}

pub fn exec_history_to(
    sid: u32,
    prob: &Prob,
    settings: &DefaultSettings<f64>,
    ops: &[SolveOp],
    use_limits: bool,
    target: &Target,
) -> ExecResult {
    let mut st = settings.clone();
    if use_limits {
        st.time_limit = ops[0].time_limit;
    } else {
        st.time_limit = f64::INFINITY;
    }
    st.max_iter = ops[0].max_iter;
    let reads0 = with_sim(|s| s.clocks[my_id()].idx);
    let mut solver = match sv_new(sid, prob, st) {
        Ok(s) => s,
        Err(e) => {
            return ExecResult {
                snaps: vec![],
                new_err: Some(e),
                reads_total: 0,
                solver: None,
                sink_id: None,
            }
        }
    };
    use clarabel::io::ConfigurablePrintTarget;
    let mut sink_id = None;
    // the default target is the process's stdout, which the worker protocol
    // owns: always redirect
    match target {
        Target::Buffer => solver.print_to_buffer(),
        Target::Stream(plan) => {
            let id = with_sim(|s| s.new_sink(plan.clone()));
            sink_id = Some(id);
            solver.print_to_stream(Box::new(SimWriter { id }));
        }
        Target::File(path) => {
            let f = std::fs::File::create(path).expect("create output file");
            solver.print_to_file(f);
        }
        Target::Sink => solver.print_to_sink(),
        Target::Stdout => solver.print_to_stdout(),
    }
    let mut snaps = vec![];
    let mut usable = true;
    for (k, op) in ops.iter().enumerate() {
        if k > 0 {
            solver.settings.time_limit = if use_limits {
                op.time_limit
            } else {
                f64::INFINITY
            };
            solver.settings.max_iter = op.max_iter;
        }
        if op.flip_presolve {
            solver.settings.presolve_enable = !solver.settings.presolve_enable;
        }
        if op.flip_equil {
            solver.settings.equilibrate_enable = !solver.settings.equilibrate_enable;
        }
        if op.flip_verbose {
            solver.settings.verbose = !solver.settings.verbose;
        }
        let r = sv_solve(sid, &mut solver);
        let bad = r.is_err();
        snaps.push(r);
        if bad {
            usable = false;
            break; // the object is not usable after an unwind
        }
    }
    let reads1 = with_sim(|s| s.clocks[my_id()].idx);
    ExecResult {
        snaps,
        new_err: None,
        reads_total: reads1 - reads0,
        solver: if usable { Some(solver) } else { None },
        sink_id,
    }
}

pub fn gen_ops(tier: Tier) -> Vec<SolveOp> {
    let _ = tier;
    let nsolves = 1 + choose("nsolves", 3) as usize;
    (0..nsolves)
        .map(|_| SolveOp {
            time_limit: f64::INFINITY, // filled in later
            max_iter: [60u32, 0, 1, 2, 3, 5, 8, 13][choose("max_iter", 8) as usize],
            ..Default::default()
        })
        .collect()
}

pub fn run(tier: Tier) -> RunOutcome {
    let mut out = RunOutcome::default();
    let mut opts = match tier {
        Tier::Quick => GenOpts::quick(),
        Tier::Thorough => GenOpts::thorough(),
    };
    // boundary shapes: the runs exist anyway, so the no-panic / terminal-status
    // invariants are asserted on them too
    opts.degenerate = true;
    opts.allow_soc1 = true;
    opts.max_scale_pow = 8;
    let prob = with_sim(|s| gen_problem(&mut s.cs, &opts));
    let verbose = flag("verbose");
    let settings = with_sim(|s| gen_settings(&mut s.cs, verbose));
    let sink = if verbose && flag("stream") {
        Some(SinkPlan {
            seed: choose("sinkseed", 1 << 16) as u64,
            short_rate: [0, 40, 128][choose("short", 3) as usize],
            eintr_rate: [0, 40, 128][choose("eintr", 3) as usize],
            hard_at: None,
            flush_err_at: None,
        })
    } else {
        None
    };
    let mut ops = gen_ops(tier);

    // documented-panic clause: inconsistent dimensions are rejected at construction
    if prob.m > 0 && chance("baddims", 1, 16) {
        let mut bad = prob.clone();
        match choose("badwhich", 5) {
            0 => bad.b.push(1.0),
            1 => bad.q.push(1.0),
            2 => {
                bad.cones.push(ConeSpec::Nonneg(1));
            }
            3 => {
                // P with one column more than q has entries (not square w.r.t. n)
                bad.p_user.n += 1;
                let last = *bad.p_user.colptr.last().unwrap();
                bad.p_user.colptr.push(last);
            }
            _ => {
                // A with one column more
                bad.a.n += 1;
                let last = *bad.a.colptr.last().unwrap();
                bad.a.colptr.push(last);
            }
        }
        api(format!("NewBadDims {}", bad.describe()));
        let r = sv_new(9, &bad, settings.clone());
        probe("baddims_tried");
        if r.is_ok() {
            out.violations.push(Violation::new(
                "C04.baddims_accepted",
                format!("inconsistent dimensions produced a solver: {}", bad.describe()),
            ));
        }
    }

    // ---------- reference execution: frozen clock, no limit ----------
    with_sim(|s| s.clocks[0] = Clock::new(ClockProfile::frozen()));
    api(format!("problem {}", prob.describe()));
    api(format!("settings {}", describe_settings(&settings)));
    let log0 = with_sim(|s| s.log.len());
    let reference = exec_history(0, &prob, &settings, &ops, false, sink.clone());
    if let Some(e) = &reference.new_err {
        out.violations.push(Violation::new(
            "C04.panic_new",
            format!("DefaultSolver::new panicked on a well-formed problem: {} [{}]", e, prob.describe()),
        ));
        out.summary = format!("{} -> new panicked", prob.describe());
        return out;
    }
    for r in &reference.snaps {
        if let Err(e) = r {
            out.violations.push(Violation::new(
                "C04.panic_solve",
                format!("solve panicked on a well-formed problem: {} [{}]", e, prob.describe()),
            ));
            out.summary = format!("{} -> solve panicked", prob.describe());
            return out;
        }
    }
    let ref_traces: Vec<SolveTrace> = with_sim(|s| analyse(&s.log[log0..]))
        .into_iter()
        .filter(|t| t.sid == 0)
        .collect();
    let r_total = reference.reads_total.max(1);

    // ---------- the clock under test ----------
    let kind = choose("clk", 6);
    let seed = choose("clkseed", 1 << 16) as u64;
    let mut profile = match kind {
        0 => ClockProfile::fine(seed),
        1 => ClockProfile::frozen(),
        2 => ClockProfile {
            kind: ClockKind::Coarse,
            ..ClockProfile::fine(seed)
        },
        _ => ClockProfile::fine(seed),
    };
    probe(match kind {
        0 => "c04_clock_fine",
        1 => "c04_clock_frozen",
        2 => "c04_clock_coarse_bursty",
        3 => "c04_clock_one_jump_1000s",
        4 => "c04_clock_stall_in_print_span",
        _ => "c04_clock_creep_1ms_per_read",
    });
    let at = choose("at", r_total as u32 + 1) as u64; // read index where things happen
    let mut limit_ns: Option<u64> = None;
    match kind {
        3 => {
            // one jump of 1000 s at read `at`; limit 1 s
            profile.jumps.push((at, 1_000_000_000_000));
            limit_ns = Some(1_000_000_000);
        }
        4 => {
            // a sink blocked for 1000 s during one print span; limit 1 s
            let spans: u64 = ref_traces.iter().map(|t| t.print_spans).sum();
            let span = choose("span", spans.max(1) as u32) as u64;
            profile.print_stall = Some((span, 1_000_000_000_000));
            limit_ns = Some(1_000_000_000);
        }
        5 => {
            // creep: every read costs 1 ms; limit crossed around read `at`
            profile.creep = 1_000_000;
            limit_ns = Some(at * 1_000_000);
        }
        _ => {}
    }
    // time limits per solve
    for (k, op) in ops.iter_mut().enumerate() {
        let mode = choose("limit", 6);
        op.time_limit = match (mode, limit_ns) {
            (0, Some(ns)) => secs(ns),
            (0, None) => {
                // cross somewhere mid-run under this profile
                let mut c = Clock::new(profile.clone());
                let t0 = c.now;
                for _ in 0..at {
                    c.step_for_estimate();
                }
                secs(c.now - t0)
            }
            (1, _) => f64::INFINITY,
            (2, _) => 0.0,
            (3, _) => 1e-9 * (1 + choose("tiny", 1000)) as f64,
            // huge but finite limits are legal settings too
            (5, _) => [1e20, 1e300, f64::MAX, 1e15][choose("huge", 4) as usize],
            (_, Some(ns)) => secs(ns) * 0.5,
            (_, None) => 1e6,
        };
        let _ = k;
    }
    with_sim(|s| s.clocks[0] = Clock::new(profile.clone()));
    api(format!("clock {}", profile.describe()));
    api(format!("ops {:?}", ops));
    let log1 = with_sim(|s| s.log.len());
    let real = exec_history(1, &prob, &settings, &ops, true, sink.clone());
    let traces: Vec<SolveTrace> = with_sim(|s| analyse(&s.log[log1..]))
        .into_iter()
        .filter(|t| t.sid == 1)
        .collect();

    if let Some(e) = &real.new_err {
        out.violations.push(Violation::new(
            "C04.panic_new",
            format!("DefaultSolver::new panicked: {}", e),
        ));
        return out;
    }

    let mut crossed_any = false;
    let mut statuses = vec![];
    for (k, r) in real.snaps.iter().enumerate() {
        let op = &ops[k];
        let snap = match r {
            Err(e) => {
                let class = if e.contains(EVENT_CAP_PANIC) {
                    "C04.no_termination"
                } else {
                    "C04.panic_solve"
                };
                out.violations.push(Violation::new(
                    class,
                    format!("solve #{} did not return normally: {} [{}]", k, e, prob.describe()),
                ));
                break;
            }
            Ok(s) => s,
        };
        statuses.push(format!("{:?}", snap.status));
        let tr = &traces[k];
        let rtr = &ref_traces[k];
        let rsnap = reference.snaps[k].as_ref().unwrap();
        let limit = op.time_limit;

        // ---- check 3: terminal status, iteration budget, lengths
        if !is_terminal(snap.status) {
            out.violations.push(Violation::new(
                "C04.not_terminal",
                format!("solve #{} returned status {:?}", k, snap.status),
            ));
        }
        if snap.iterations > op.max_iter {
            out.violations.push(Violation::new(
                "C04.iterations",
                format!("solve #{} reports {} iterations > max_iter {}", k, snap.iterations, op.max_iter),
            ));
        }
        // bounded liveness, whatever the clock does
        if tr.boundaries.len() as u64 > op.max_iter as u64 + 3 {
            out.violations.push(Violation::new(
                "C04.too_many_boundaries",
                format!("solve #{}: {} iteration boundaries with max_iter {}", k, tr.boundaries.len(), op.max_iter),
            ));
        }

        // ---- check 1: stops at the first boundary where the limit is certainly exceeded
        let first = tr.boundaries.iter().position(|b| secs(b.t_lo) > limit);
        if let Some(j) = first {
            crossed_any = true;
            probe("limit_crossed");
            let last = tr.boundaries.len() - 1;
            let ok = last == j
                || (last == j + 1
                    && !prob.is_symmetric()
                    && tr.boundaries[j + 1].iter == tr.boundaries[j].iter);
            if !ok {
                out.violations.push(Violation::new(
                    "C04.continued_past_limit",
                    format!(
                        "solve #{}: limit {:e}s certainly exceeded at boundary {} (iter {}, T_lo={:e}s) but the solve went on to boundary {} (iter {}), status {:?}",
                        k, limit, j, tr.boundaries[j].iter, secs(tr.boundaries[j].t_lo),
                        last, tr.boundaries[last].iter, snap.status
                    ),
                ));
            } else {
                // what it reports when it stops there: the reference run tells
                // whether another verdict was reached first
                // the boundary at which the limited run decided to stop: the first one from j
                // on after which it did no more numerical work (the record made after the
                // loop, if any, follows it)
                let d = (j..=last).find(|&i| !tr.boundaries[i].proceeded).unwrap_or(last);
                let ref_continued = rsnap.iterations > snap.iterations
                    || rtr.boundaries.get(d).map(|b| b.proceeded).unwrap_or(false);
                if ref_continued {
                    probe("cut_by_limit");
                    if !is_maxtime_family(snap.status) {
                        out.violations.push(Violation::new(
                            "C04.wrong_status_at_limit",
                            format!(
                                "solve #{}: stopped at the limit (boundary {}) where the unlimited run reached no verdict, but reports {:?}",
                                k, last, snap.status
                            ),
                        ));
                    }
                } else if snap.status != rsnap.status
                    // the limit is exceeded at this boundary and the unlimited run ends here as
                    // well (converged, gave up, hit max_iter, or broke down before doing any
                    // more numerical work): the property does not say which of the two wins
                    // the tie, so MaxTime is as good as the other verdict
                    && !is_maxtime_family(snap.status)
                {
                    out.violations.push(Violation::new(
                        "C04.verdict_changed",
                        format!(
                            "solve #{}: unlimited run ends at the same boundary with {:?}, limited run reports {:?}",
                            k, rsnap.status, snap.status
                        ),
                    ));
                }
            }
        } else if tr.boundaries.len() < rtr.boundaries.len() && !is_maxtime_family(snap.status) {
            // stopped early without the limit being certainly exceeded and
            // without a MaxTime-family status: something else cut the run
            out.violations.push(Violation::new(
                "C04.stopped_early",
                format!(
                    "solve #{}: {} boundaries vs {} in the unlimited run, status {:?}",
                    k, tr.boundaries.len(), rtr.boundaries.len(), snap.status
                ),
            ));
        }

        // ---- check 2: MaxTime needs a cause
        if snap.status == SolverStatus::MaxTime {
            probe("status_maxtime");
            let hi = tr.boundaries.last().map(|b| b.t_hi).unwrap_or(0);
            let hi = if hi == u64::MAX { tr.t_hi_end } else { hi };
            if !(secs(hi) > limit) {
                out.violations.push(Violation::new(
                    "C04.maxtime_without_cause",
                    format!(
                        "solve #{}: MaxTime with limit {:e}s but at most {:e}s attributable to this solver at its last boundary",
                        k, limit, secs(hi)
                    ),
                ));
            }
        }

        // ---- check 4: reported solve_time within the model's bounds
        let st = snap.solve_time;
        if !(secs(tr.t_lo_end) <= st && st <= secs(tr.t_hi_end)) {
            out.violations.push(Violation::new(
                "C04.solve_time",
                format!(
                    "solve #{}: solve_time {:e}s outside [{:e}, {:e}]",
                    k, st, secs(tr.t_lo_end), secs(tr.t_hi_end)
                ),
            ));
        }
        // where did the crossing land?
        if let Some(j) = first {
            let _ = j;
            if tr.class_counts[1] > 0 {
                probe("reads_in_suspend_resume");
            }
        }
    }
    if kind == 4 {
        probe("print_stall_runs");
    }
    out.nontrivial = crossed_any;
    out.summary = format!(
        "{} | {} | clock {} | limits {:?} | -> {}",
        prob.describe(),
        describe_settings(&settings),
        profile.describe(),
        ops.iter().map(|o| (o.time_limit, o.max_iter)).collect::<Vec<_>>(),
        statuses.join(",")
    );
    out
}
