//! C20 — output routing under sink faults and a controlled clock, and
//! log/solution consistency on every path the simulator can force.
//!
//! The same history is executed once per target with a clock that is a pure
//! function of the read index; reference R4 is the fault-free Buffer output.

use crate::gen::*;
use crate::harness::*;
use crate::props::c04::{exec_history_to, SolveOp, Target};
use crate::refmath::*;
use crate::simcore::*;
use crate::Tier;
use clarabel::io::ConfigurablePrintTarget;
use clarabel::solver::{DefaultSettings, SolverStatus};
use std::time::Duration;

/// set some right-hand sides to "infinite" values
pub fn plant_infinite_bounds(prob: &mut Prob, bound: f64, only_nonneg: bool) -> usize {
    let row_cone = prob.row_cone();
    let mut planted = 0;
    for i in 0..prob.m {
        let nn = matches!(prob.cones[row_cone[i]], ConeSpec::Nonneg(_) | ConeSpec::Soc(1));
        if only_nonneg && !nn {
            continue;
        }
        // zero-cone rows with a huge rhs make the problem meaningless; skip them
        if matches!(prob.cones[row_cone[i]], ConeSpec::Zero(_)) {
            continue;
        }
        if chance("infrow", 1, 4) {
            let f = [1.0, 2.0, 1e3, f64::INFINITY][choose("infmag", 4) as usize];
            prob.b[i] = if f.is_infinite() { f64::INFINITY } else { bound * f };
            planted += 1;
        }
    }
    planted
}

/// the cone list the solver works with internally, per the documented
/// clean-up: empty cones removed, runs of nonnegative cones merged
pub fn model_internal_cones(reduced: &Prob) -> Vec<ConeSpec> {
    let mut out: Vec<ConeSpec> = vec![];
    let mut run: Option<usize> = None;
    for c in &reduced.cones {
        if c.dim() == 0 {
            continue;
        }
        match c {
            ConeSpec::Nonneg(d) => run = Some(run.unwrap_or(0) + d),
            ConeSpec::Soc(1) => run = Some(run.unwrap_or(0) + 1),
            other => {
                if let Some(d) = run.take() {
                    out.push(ConeSpec::Nonneg(d));
                }
                out.push(other.clone());
            }
        }
    }
    if let Some(d) = run.take() {
        out.push(ConeSpec::Nonneg(d));
    }
    out
}

#[derive(Debug, Default, Clone)]
pub struct ParsedSolve {
    pub removed: Option<u64>,
    pub header: Vec<(String, String)>, // key = value lines of the problem block
    pub cone_lines: Vec<(String, u64, Vec<u64>, bool)>, // name, count, numels, elided
    pub settings_text: String,
    pub cols: Vec<String>,
    pub rows: Vec<Vec<String>>,
    pub status: String,
    pub time: String,
}

/// Split the output of several solves into per-solve blocks and parse them.
/// The parser is keyed on the parts the property talks about (the "problem:" block,
/// the settings block, the progress table, the footer) and is tolerant of everything
/// else (banner text, additional lines, additional columns).
pub fn parse_output(text: &str) -> Result<Vec<ParsedSolve>, String> {
    let lines: Vec<&str> = text.lines().collect();
    // a block ends with the "solve time" line that follows a "Terminated" line
    let mut blocks: Vec<&[&str]> = vec![];
    let mut start = 0;
    let mut seen_term = false;
    for (i, l) in lines.iter().enumerate() {
        if l.starts_with("Terminated with status = ") {
            seen_term = true;
        } else if seen_term && l.starts_with("solve time = ") {
            blocks.push(&lines[start..=i]);
            start = i + 1;
            seen_term = false;
        }
    }
    if lines[start..].iter().any(|l| !l.trim().is_empty()) {
        return Err(format!(
            "{} lines after the last complete footer (first: {:?})",
            lines.len() - start,
            lines[start..].iter().find(|l| !l.trim().is_empty())
        ));
    }
    let mut out = vec![];
    for b in blocks {
        let mut p = ParsedSolve::default();
        let mut i = 0;
        // presolve line (anywhere before the problem block)
        let prob_at = b.iter().position(|l| l.trim() == "problem:").ok_or("no problem block")?;
        for l in &b[..prob_at] {
            if let Some(rest) = l.trim().strip_prefix("presolve: removed ") {
                let k = rest.split(' ').next().unwrap_or("");
                p.removed = Some(k.parse().map_err(|_| format!("bad presolve line {:?}", l))?);
            }
        }
        i = prob_at + 1;
        while i < b.len() && !b[i].trim().is_empty() {
            let l = b[i];
            if let Some(rest) = l.strip_prefix("    : ") {
                let (name, rest) = rest.split_once('=').ok_or(format!("bad cone line {:?}", l))?;
                let (count, rest) = rest.split_once(',').ok_or(format!("bad cone line {:?}", l))?;
                let count: u64 = count.trim().parse().map_err(|_| format!("bad cone count {:?}", l))?;
                let (_, nm) = rest.split_once("numel =").ok_or(format!("bad cone line {:?}", l))?;
                let nm = nm.trim();
                let elided = nm.contains("...");
                let nums: Vec<u64> = nm
                    .trim_matches(|c| c == '(' || c == ')')
                    .split(',')
                    .filter(|t| !t.contains("..."))
                    .map(|t| t.trim().parse::<u64>().map_err(|_| format!("bad numel {:?}", l)))
                    .collect::<Result<_, _>>()?;
                p.cone_lines.push((name.trim().to_string(), count, nums, elided));
            } else if let Some((k, v)) = l.split_once('=') {
                p.header.push((k.trim().to_string(), v.trim().to_string()));
            }
            i += 1;
        }
        // settings block: from "settings:" to the table header
        let table_at = b
            .iter()
            .position(|l| {
                let mut t = l.split_whitespace();
                t.next() == Some("iter") && l.contains("pcost")
            })
            .ok_or("no progress table header")?;
        if let Some(set_at) = b.iter().position(|l| l.trim() == "settings:") {
            if set_at < table_at {
                p.settings_text = b[set_at..table_at].join("\n");
            }
        }
        p.cols = b[table_at].split_whitespace().map(|s| s.to_string()).collect();
        i = table_at + 1;
        if i < b.len() && b[i].starts_with("-----") {
            i += 1;
        }
        while i < b.len() && !b[i].starts_with("-----") && !b[i].starts_with("Terminated") {
            if !b[i].trim().is_empty() {
                p.rows.push(b[i].split_whitespace().map(|s| s.to_string()).collect());
            }
            i += 1;
        }
        for l in &b[i..] {
            if let Some(s) = l.strip_prefix("Terminated with status = ") {
                p.status = s.to_string();
            } else if let Some(s) = l.strip_prefix("solve time = ") {
                p.time = s.to_string();
            }
        }
        out.push(p);
    }
    Ok(out)
}

/// does the printed figure agree with v to its printed digits (sig significant digits)?
fn agrees(printed: &str, v: f64, sig: i32) -> bool {
    if !v.is_finite() {
        let p = printed.trim_start_matches('+').to_lowercase();
        return (v.is_nan() && p == "nan")
            || (v == f64::INFINITY && p == "inf")
            || (v == f64::NEG_INFINITY && p == "-inf");
    }
    let Ok(p) = printed.parse::<f64>() else {
        return false;
    };
    if v == 0.0 {
        return p == 0.0;
    }
    let e = v.abs().log10().floor() as i32;
    let unit = 10f64.powi(e - (sig - 1));
    (p - v).abs() <= 0.5000001 * unit
}

fn setting_num(text: &str, key: &str) -> Option<f64> {
    let i = text.find(key)?;
    let rest = &text[i + key.len()..];
    let tok: String = rest
        .trim_start()
        .chars()
        .take_while(|c| !c.is_whitespace() && *c != ',')
        .collect();
    if tok == "Inf" {
        return Some(f64::INFINITY);
    }
    tok.parse().ok()
}

/// label -> text of the labelled group of the settings block: a line whose text has a ':'
/// before any '=' starts a group, lines without a label continue the current one (the
/// general lines, recognised by "time limit" / "tol_feas", belong to no group)
fn settings_groups(text: &str) -> std::collections::BTreeMap<String, String> {
    let mut out: std::collections::BTreeMap<String, String> = Default::default();
    let mut cur: Option<String> = None;
    for line in text.lines() {
        let t = line.trim();
        let colon = t.find(':');
        let eq = t.find('=');
        let labelled = match (colon, eq) {
            (Some(c), Some(e)) => c < e,
            (Some(_), None) => true,
            _ => false,
        };
        if labelled {
            let label = t[..colon.unwrap()].trim().to_string();
            let rest = t[colon.unwrap() + 1..].to_string();
            out.entry(label.clone()).or_default().push_str(&rest);
            cur = Some(label);
        } else if t.contains("time limit") || t.contains("tol_feas") {
            cur = None;
        } else if let Some(c) = &cur {
            let e = out.entry(c.clone()).or_default();
            e.push('\n');
            e.push_str(t);
        }
    }
    out
}

fn setting_bool(text: &str, key: &str) -> Option<bool> {
    let i = text.find(key)?;
    let rest = &text[i + key.len()..];
    let tok: String = rest
        .trim_start()
        .chars()
        .take_while(|c| c.is_alphabetic())
        .collect();
    match tok.as_str() {
        "on" | "true" => Some(true),
        "off" | "false" => Some(false),
        _ => None,
    }
}

fn type_name(c: &ConeSpec) -> &'static str {
    match c {
        ConeSpec::Zero(_) => "Zero",
        ConeSpec::Nonneg(_) => "Nonnegative",
        ConeSpec::Soc(_) => "SecondOrder",
        ConeSpec::Exp => "Exponential",
        ConeSpec::Pow(_) => "Power",
        ConeSpec::GenPow(_, _) => "GenPower",
    }
}

/// log vs returned solution and vs the model of the internal problem
pub fn check_log(
    parsed: &ParsedSolve,
    snap: &Snap,
    settings_at_solve: &DefaultSettings<f64>,
    prob: &Prob,
    eff: &Effective,
    tag: &str,
) -> Vec<Violation> {
    let mut v = vec![];
    // ---- iteration column
    let col = |name: &str| parsed.cols.iter().position(|c| c == name);
    let (Some(c_it), Some(c_pc), Some(c_dc), Some(c_pr), Some(c_dr)) =
        (col("iter"), col("pcost"), col("dcost"), col("pres"), col("dres"))
    else {
        v.push(Violation::new(
            "C20.table_malformed",
            format!("{}: progress table header lacks iter/pcost/dcost/pres/dres: {:?}", tag, parsed.cols),
        ));
        return v;
    };
    let iters: Vec<Option<u32>> = parsed.rows.iter().map(|r| r.get(c_it).and_then(|s| s.parse().ok())).collect();
    if iters.is_empty() || iters.iter().any(|i| i.is_none()) || parsed.rows.iter().any(|r| r.len() != parsed.cols.len()) {
        v.push(Violation::new("C20.table_malformed", format!("{}: header {:?} rows {:?}", tag, parsed.cols, parsed.rows)));
        return v;
    }
    let iters: Vec<u32> = iters.into_iter().map(|i| i.unwrap()).collect();
    if iters[0] != 0 || iters.windows(2).any(|w| w[1] < w[0]) || *iters.last().unwrap() != snap.iterations {
        v.push(Violation::new(
            "C20.iteration_column",
            format!("{}: iteration column {:?}, reported iterations {}", tag, iters, snap.iterations),
        ));
    }
    // ---- last row vs solution
    let infeasible = matches!(
        snap.status,
        SolverStatus::PrimalInfeasible
            | SolverStatus::DualInfeasible
            | SolverStatus::AlmostPrimalInfeasible
            | SolverStatus::AlmostDualInfeasible
    );
    let row_matches = |row: &Vec<String>| -> bool {
        (infeasible || (agrees(&row[c_pc], snap.obj_val, 5) && agrees(&row[c_dc], snap.obj_val_dual, 5)))
            && agrees(&row[c_pr], snap.r_prim, 3)
            && agrees(&row[c_dr], snap.r_dual, 3)
    };
    let last = parsed.rows.last().unwrap();
    if !row_matches(last) {
        let detail = format!(
            "{}: last row {:?} vs returned obj_val={:e} obj_val_dual={:e} r_prim={:e} r_dual={:e} status {:?}",
            tag, last, snap.obj_val, snap.obj_val_dual, snap.r_prim, snap.r_dual, snap.status
        );
        // F5: roll-back on insufficient progress (the solver restores the
        // previous iterate and stops without printing it again)
        // (post-processing may then relabel InsufficientProgress as Almost*)
        let rollback = matches!(
            snap.status,
            SolverStatus::InsufficientProgress
                | SolverStatus::AlmostSolved
                | SolverStatus::AlmostPrimalInfeasible
                | SolverStatus::AlmostDualInfeasible
        ) && snap.info_step_length != 0.0
            && parsed.rows.len() >= 2
            && row_matches(&parsed.rows[parsed.rows.len() - 2]);
        if rollback {
            v.push(Violation::keyed("C20.last_row_mismatch", "insufficient_progress_rollback", detail));
        } else {
            v.push(Violation::new("C20.last_row_mismatch", detail));
        }
    }
    // ---- footer
    if parsed.status != format!("{:?}", snap.status) {
        v.push(Violation::new(
            "C20.footer_status",
            format!("{}: footer says {:?}, solution says {:?}", tag, parsed.status, snap.status),
        ));
    }
    let t = format!("{:?}", Duration::from_secs_f64(snap.solve_time));
    if parsed.time != t {
        v.push(Violation::new(
            "C20.footer_time",
            format!("{}: footer says {:?}, solution.solve_time formats as {:?}", tag, parsed.time, t),
        ));
    }
    // ---- header vs the model of the internal problem
    let reduced = hand_reduce(prob, eff);
    let cones = model_internal_cones(&reduced);
    let get = |k: &str| parsed.header.iter().find(|(a, _)| a == k).map(|(_, b)| b.clone());
    let expect = [
        ("variables", prob.n as u64),
        ("constraints", reduced.m as u64),
        ("nnz(P)", prob.p_triu.nnz() as u64),
        ("nnz(A)", reduced.a.nnz() as u64),
        ("cones (total)", cones.len() as u64),
    ];
    for (k, want) in expect {
        let got = get(k).and_then(|s| s.parse::<u64>().ok());
        if got != Some(want) {
            v.push(Violation::new(
                "C20.header_dims",
                format!("{}: header {} = {:?}, internal problem has {}", tag, k, got, want),
            ));
        }
    }
    // per-type cone lines
    for ty in ["Zero", "Nonnegative", "SecondOrder", "Exponential", "Power", "GenPower"] {
        let dims: Vec<u64> = cones.iter().filter(|c| type_name(c) == ty).map(|c| c.dim() as u64).collect();
        let line = parsed.cone_lines.iter().find(|(n, _, _, _)| n == ty);
        match (dims.is_empty(), line) {
            (true, None) => {}
            (false, Some((_, count, nums, elided))) => {
                let ok = *count == dims.len() as u64
                    && if *elided {
                        dims.len() > 5 && nums[..4] == dims[..4] && nums.last() == dims.last()
                    } else {
                        *nums == dims
                    };
                if !ok {
                    v.push(Violation::new(
                        "C20.header_cones",
                        format!("{}: header lists {} cones {:?} (count {}), internal problem has {:?}", tag, ty, nums, count, dims),
                    ));
                }
            }
            _ => v.push(Violation::new(
                "C20.header_cones",
                format!("{}: header cone line for {} is {:?}, internal problem has {:?}", tag, ty, line, dims),
            )),
        }
    }
    // presolve line
    let want_removed = if eff.n_dropped > 0 { Some(eff.n_dropped as u64) } else { None };
    if parsed.removed != want_removed {
        v.push(Violation::new(
            "C20.header_presolve",
            format!("{}: header says removed {:?}, model says {:?}", tag, parsed.removed, want_removed),
        ));
    }
    // settings
    let st = &parsed.settings_text;
    let s = settings_at_solve;
    let nums: [(&str, f64, f64); 6] = [
        ("max iter =", s.max_iter as f64, 0.0),
        ("time limit =", s.time_limit, 1e-12),
        ("max step =", s.max_step_fraction, 0.0005001),
        ("tol_feas =", s.tol_feas, 0.051 * s.tol_feas),
        ("tol_gap_abs =", s.tol_gap_abs, 0.051 * s.tol_gap_abs),
        ("tol_gap_rel =", s.tol_gap_rel, 0.051 * s.tol_gap_rel),
    ];
    for (k, want, tol) in nums {
        let got = setting_num(st, k);
        let ok = match got {
            Some(g) if g.is_infinite() || want.is_infinite() => g == want,
            Some(g) => (g - want).abs() <= tol + 1e-9 * want.abs(),
            None => false,
        };
        if !ok {
            v.push(Violation::new(
                "C20.header_settings",
                format!("{}: header {} {:?}, settings value {:e}", tag, k, got, want),
            ));
        }
    }
    // the labelled groups ("static reg :", "dynamic reg:", "iter refine:", "equilibrate:") with
    // their continuation lines; a value that is shown must be the value in force (a key that
    // a layout change no longer shows is not demanded)
    let groups = settings_groups(st);
    let grouped: [(&str, &str, f64, f64); 11] = [
        ("static reg", "ϵ1 =", s.static_regularization_constant, 0.051 * s.static_regularization_constant),
        ("static reg", "ϵ2 =", s.static_regularization_proportional, 0.051 * s.static_regularization_proportional),
        ("dynamic reg", "ϵ =", s.dynamic_regularization_eps, 0.051 * s.dynamic_regularization_eps),
        ("dynamic reg", "δ =", s.dynamic_regularization_delta, 0.051 * s.dynamic_regularization_delta),
        ("iter refine", "reltol =", s.iterative_refinement_reltol, 0.051 * s.iterative_refinement_reltol),
        ("iter refine", "abstol =", s.iterative_refinement_abstol, 0.051 * s.iterative_refinement_abstol),
        ("iter refine", "max iter =", s.iterative_refinement_max_iter as f64, 0.0),
        ("iter refine", "stop ratio =", s.iterative_refinement_stop_ratio, 0.0501),
        ("equilibrate", "min_scale =", s.equilibrate_min_scaling, 0.051 * s.equilibrate_min_scaling),
        ("equilibrate", "max_scale =", s.equilibrate_max_scaling, 0.051 * s.equilibrate_max_scaling),
        ("equilibrate", "max iter =", s.equilibrate_max_iter as f64, 0.0),
    ];
    for (g, k, want, tol) in grouped {
        let Some(text) = groups.get(g) else { continue };
        let Some(got) = setting_num(text, k) else { continue };
        with_sim(|s| s.probe("c20_header_group_setting_checked"));
        if (got - want).abs() > tol + 1e-9 * want.abs() {
            v.push(Violation::new(
                "C20.header_settings",
                format!("{}: header group {:?} shows {} {:e}, settings value {:e}", tag, g, k, got, want),
            ));
        }
    }
    let bools: [(&str, bool); 4] = [
        ("static reg :", s.static_regularization_enable),
        ("dynamic reg:", s.dynamic_regularization_enable),
        ("iter refine:", s.iterative_refinement_enable),
        ("equilibrate:", s.equilibrate_enable),
    ];
    for (k, want) in bools {
        let got = setting_bool(st, k);
        if got != Some(want) {
            v.push(Violation::new(
                "C20.header_settings",
                format!("{}: header {} {:?}, settings value {}", tag, k, got, want),
            ));
        }
    }
    v
}

fn work_file(name: &str) -> String {
    format!("{}/{}", crate::scratch_dir(), name)
}

pub fn run(tier: Tier) -> RunOutcome {
    let mut out = RunOutcome::default();
    let opts = match tier {
        Tier::Quick => GenOpts::quick(),
        Tier::Thorough => GenOpts::thorough(),
    };
    let mut opts = opts;
    if chance("manycones", 1, 10) {
        // more than five cones of one type: the header then elides the dimension list
        opts.max_cones = 10;
        opts.max_cone_dim = 2;
    }
    let mut prob = with_sim(|s| gen_problem(&mut s.cs, &opts));
    let verbose = !chance("quiet", 1, 4);
    let settings = with_sim(|s| gen_settings(&mut s.cs, verbose));
    let bound = with_sim(|s| s.inf_model);
    if chance("infb", 1, 4) {
        plant_infinite_bounds(&mut prob, bound, false);
    }
    let eff = effective(&prob, bound, settings.presolve_enable);

    // history with interruptions, as in C03
    let nsolves = 1 + choose("nsolves", 2) as usize;
    let mut ops: Vec<SolveOp> = (0..nsolves)
        .map(|_| SolveOp {
            // the user may edit public settings fields between construction and solve;
            // the header must keep describing the problem actually being solved
            flip_presolve: chance("flip_presolve", 1, 5),
            flip_equil: chance("flip_equil", 1, 5),
            flip_verbose: chance("flip_verbose", 1, 6),
            ..Default::default()
        })
        .collect();
    // which solves print: settings.verbose may be toggled between solves
    let mut verbose_at: Vec<bool> = vec![];
    {
        let mut vb = verbose;
        for op in &ops {
            if op.flip_verbose {
                vb = !vb;
            }
            verbose_at.push(vb);
        }
    }
    let verbose = verbose_at.iter().any(|v| *v); // from here on: does any solve print
    let mut profile = ClockProfile::fine(choose("clkseed", 1 << 16) as u64);
    profile.creep = 1_000_000;
    for op in ops.iter_mut() {
        match choose("cut", 4) {
            1 => op.time_limit = secs(choose("at", 400) as u64 * 1_000_000),
            2 => op.max_iter = choose("k", 20),
            _ => {}
        }
    }
    api(format!("problem {}", prob.describe()));
    api(format!("settings {}", describe_settings(&settings)));
    api(format!("ops {:?}", ops));

    // ---- child-process mode: the same history with the real stdout as target
    if std::env::var("SIM_C20_STDOUT_CHILD").is_ok() {
        with_sim(|s| s.clocks[0] = Clock::new(profile.clone()));
        let _ = exec_history_to(0, &prob, &settings, &ops, true, &Target::Stdout);
        use std::io::Write;
        std::io::stdout().flush().ok();
        std::process::exit(0);
    }

    // ---- R4: fault-free buffer
    with_sim(|s| s.clocks[0] = Clock::new(profile.clone()));
    let mut r4 = exec_history_to(0, &prob, &settings, &ops, true, &Target::Buffer);
    if r4.new_err.is_some() || r4.snaps.iter().any(|s| s.is_err()) {
        probe("c20_panic_skipped");
        out.summary = format!("{} -> panic (left to C04)", prob.describe());
        return out;
    }
    let buf = r4
        .solver
        .as_mut()
        .map(|s| s.get_print_buffer().unwrap_or_default())
        .unwrap_or_default();
    let snaps4: Vec<Snap> = r4.snaps.iter().map(|s| s.clone().unwrap()).collect();

    // ---- stdout, observed through a child process whose fd 1 is a pipe
    if chance("stdout_child", 1, 48) {
        let choices = with_sim(|s| s.cs.record.clone());
        let list: Vec<serde_json::Value> = choices
            .iter()
            .map(|c| serde_json::json!([c.tag, c.n, c.v]))
            .collect();
        let path = work_file("stdout_child.json");
        std::fs::write(&path, serde_json::to_vec(&list).unwrap()).expect("write choices");
        let outp = std::process::Command::new(std::env::current_exe().expect("exe"))
            .arg("c20-stdout")
            .arg(&path)
            .arg(if tier == Tier::Quick { "quick" } else { "thorough" })
            .env("SIM_C20_STDOUT_CHILD", "1")
            .stderr(std::process::Stdio::null())
            .output();
        std::fs::remove_file(&path).ok();
        probe("c20_stdout_child_runs");
        match outp {
            Ok(o) if o.status.success() => {
                if o.stdout != buf.as_bytes() {
                    out.violations.push(Violation::new(
                        if verbose { "C20.stdout_differs_from_buffer" } else { "C20.quiet_stdout_written" },
                        format!("stdout received {} bytes, buffer holds {}", o.stdout.len(), buf.len()),
                    ));
                }
            }
            Ok(o) => note(format!("stdout child failed: {:?}", o.status)),
            Err(e) => note(format!("stdout child could not be spawned: {}", e)),
        }
    }

    // ---- stream under benign faults
    let plan = SinkPlan {
        seed: choose("sinkseed", 1 << 16) as u64,
        short_rate: [0, 40, 128, 250][choose("short", 4) as usize],
        eintr_rate: [0, 40, 128][choose("eintr", 3) as usize],
        hard_at: None,
        flush_err_at: None,
    };
    with_sim(|s| s.clocks[0] = Clock::new(profile.clone()));
    let rs = exec_history_to(1, &prob, &settings, &ops, true, &Target::Stream(plan.clone()));
    let (accepted, calls, flushes) = with_sim(|s| {
        let st = &s.sinks[rs.sink_id.unwrap()];
        (st.accepted.clone(), st.calls, st.flushes)
    });
    if rs.snaps.iter().any(|s| s.is_err()) {
        out.violations.push(Violation::new(
            "C20.benign_sink_fault_panics",
            format!("solve panicked under short writes / EINTR only: {:?}", rs.snaps.iter().find(|s| s.is_err())),
        ));
    }
    if !verbose {
        if calls != 0 || flushes != 0 {
            out.violations.push(Violation::new(
                "C20.quiet_stream_written",
                format!("verbose=false but the stream saw {} write and {} flush calls ({} bytes)", calls, flushes, accepted.len()),
            ));
        }
        if !buf.is_empty() {
            out.violations.push(Violation::new(
                "C20.quiet_buffer_written",
                format!("verbose=false but the buffer holds {} bytes", buf.len()),
            ));
        }
    } else if accepted != buf.as_bytes() {
        let at = accepted.iter().zip(buf.as_bytes()).position(|(a, b)| a != b).unwrap_or(accepted.len().min(buf.len()));
        out.violations.push(Violation::new(
            "C20.stream_differs_from_buffer",
            format!(
                "stream accepted {} bytes, buffer holds {}; first difference at byte {} (short={}, eintr={})",
                accepted.len(), buf.len(), at, plan.short_rate, plan.eintr_rate
            ),
        ));
    }
    // results must not depend on the target
    for (k, s) in rs.snaps.iter().enumerate() {
        if let Ok(s) = s {
            if let Some(d) = s.diff_bitwise(&snaps4[k]) {
                out.violations.push(Violation::new(
                    "C20.result_depends_on_target",
                    format!("solve #{}: stream vs buffer run differ: {}", k, d),
                ));
            }
        }
    }

    // ---- switching the target between solves: each solve's bytes go where the
    // target pointed at that time, nothing is lost, duplicated or re-sent
    if ops.len() >= 2 && chance("switch_targets", 1, 3) {
        with_sim(|s| s.clocks[0] = Clock::new(profile.clone()));
        let mut st = settings.clone();
        st.time_limit = ops[0].time_limit;
        st.max_iter = ops[0].max_iter;
        if let Ok(mut sv) = sv_new(5, &prob, st) {
            // variant 0: stream, then buffer; variant 1: buffer, then the buffer re-armed
            // (print_to_buffer() again starts an empty buffer)
            let variant = choose("switch_variant", 2);
            let id = with_sim(|s| s.new_sink(plan.clone()));
            if variant == 0 {
                sv.print_to_stream(Box::new(SimWriter { id }));
            } else {
                sv.print_to_buffer();
            }
            let mut first_part: Vec<u8> = vec![];
            let mut ok = true;
            for (k, op) in ops.iter().enumerate() {
                if k == 1 {
                    first_part = if variant == 0 {
                        with_sim(|s| s.sinks[id].accepted.clone())
                    } else {
                        sv.get_print_buffer().unwrap_or_default().into_bytes()
                    };
                    sv.print_to_buffer();
                }
                if k > 0 {
                    sv.settings.time_limit = op.time_limit;
                    sv.settings.max_iter = op.max_iter;
                }
                if op.flip_presolve {
                    sv.settings.presolve_enable = !sv.settings.presolve_enable;
                }
                if op.flip_equil {
                    sv.settings.equilibrate_enable = !sv.settings.equilibrate_enable;
                }
                if op.flip_verbose {
                    sv.settings.verbose = !sv.settings.verbose;
                }
                if sv_solve(5, &mut sv).is_err() {
                    ok = false;
                    break;
                }
            }
            if ok {
                probe("c20_target_switched_between_solves");
                let mut joined = first_part;
                joined.extend(sv.get_print_buffer().unwrap_or_default().as_bytes());
                if joined != buf.as_bytes() {
                    out.violations.push(Violation::new(
                        "C20.target_switch_changes_bytes",
                        format!(
                            "first solve to a {}, later solves to a freshly armed buffer: {} bytes in total, {} when everything goes to one buffer",
                            if variant == 0 { "stream" } else { "buffer" },
                            joined.len(),
                            buf.len()
                        ),
                    ));
                }
            }
        }
    }

    // ---- file
    let path = work_file("out.txt");
    with_sim(|s| s.clocks[0] = Clock::new(profile.clone()));
    let rf = exec_history_to(2, &prob, &settings, &ops, true, &Target::File(path.clone()));
    // what the file holds when the last solve() has returned, the solver still alive: the
    // bytes "for the same solve" (an implementation may buffer, but not beyond the solve)
    let at_return = std::fs::read(&path).unwrap_or_default();
    let alive = rf.solver.is_some();
    drop(rf.solver);
    let fbytes = std::fs::read(&path).unwrap_or_default();
    std::fs::remove_file(&path).ok();
    if alive && at_return != fbytes && fbytes == buf.as_bytes() {
        out.violations.push(Violation::new(
            "C20.file_incomplete_when_solve_returns",
            format!(
                "file holds {} bytes when solve() has returned and {} (= buffer) only after the solver was dropped",
                at_return.len(),
                fbytes.len()
            ),
        ));
    }
    if fbytes != buf.as_bytes() {
        out.violations.push(Violation::new(
            if verbose { "C20.file_differs_from_buffer" } else { "C20.quiet_file_written" },
            format!("file holds {} bytes, buffer {}", fbytes.len(), buf.len()),
        ));
    }

    // ---- sink target: nothing observable, results equal
    if chance("sinkrun", 1, 4) {
        with_sim(|s| s.clocks[0] = Clock::new(profile.clone()));
        let rk = exec_history_to(3, &prob, &settings, &ops, true, &Target::Sink);
        for (k, s) in rk.snaps.iter().enumerate() {
            match s {
                Ok(s) => {
                    if let Some(d) = s.diff_bitwise(&snaps4[k]) {
                        out.violations.push(Violation::new(
                            "C20.result_depends_on_target",
                            format!("solve #{}: sink vs buffer run differ: {}", k, d),
                        ));
                    }
                }
                Err(e) => out.violations.push(Violation::new("C20.sink_target_panics", e.clone())),
            }
        }
    }

    // ---- hard sink fault at a chosen call: accepted bytes are a prefix of R4
    if verbose && calls > 0 && chance("hard", 1, 2) {
        let at = choose("hard_at", calls);
        let kind = choose("hard_kind", 5);
        let fault = match kind {
            0 => SinkFault::Hard(std::io::ErrorKind::BrokenPipe),
            1 => SinkFault::Hard(std::io::ErrorKind::StorageFull),
            2 => SinkFault::Hard(std::io::ErrorKind::Other),
            _ => SinkFault::ZeroLen,
        };
        let hplan = if kind == 4 {
            // a failing flush (the table header flushes the stream) instead of a failing write
            SinkPlan {
                flush_err_at: Some(choose("flush_at", flushes.max(1))),
                ..plan.clone()
            }
        } else {
            SinkPlan {
                hard_at: Some((at, fault)),
                ..plan.clone()
            }
        };
        with_sim(|s| s.clocks[0] = Clock::new(profile.clone()));
        let rh = exec_history_to(4, &prob, &settings, &ops, true, &Target::Stream(hplan));
        let acc = with_sim(|s| s.sinks[rh.sink_id.unwrap()].accepted.clone());
        probe("c20_hard_fault_runs");
        if rh.snaps.iter().any(|s| s.is_err()) {
            probe("c20_solve_panicked_on_hard_sink_error"); // not judged by any property
        }
        if !buf.as_bytes().starts_with(&acc) {
            out.violations.push(Violation::new(
                "C20.garbage_after_sink_error",
                format!("after a hard sink error at call {} the {} accepted bytes are not a prefix of the fault-free output", at, acc.len()),
            ));
        }
    }

    // ---- the log says what the solver did
    let mut statuses = vec![];
    if verbose {
        match parse_output(&buf) {
            Err(e) => out.violations.push(Violation::new("C20.unparsable_output", e)),
            Ok(parsed) => {
                let printing: Vec<usize> = (0..snaps4.len()).filter(|k| verbose_at[*k]).collect();
                if parsed.len() != printing.len() {
                    out.violations.push(Violation::new(
                        "C20.unparsable_output",
                        format!("{} solve blocks in the output for {} verbose solves", parsed.len(), printing.len()),
                    ));
                } else {
                    let mut st = settings.clone();
                    let mut pi = 0;
                    for k in 0..snaps4.len() {
                        st.time_limit = ops[k].time_limit;
                        st.max_iter = ops[k].max_iter;
                        if ops[k].flip_presolve {
                            st.presolve_enable = !st.presolve_enable;
                        }
                        if ops[k].flip_equil {
                            st.equilibrate_enable = !st.equilibrate_enable;
                        }
                        if !verbose_at[k] {
                            continue;
                        }
                        let p = &parsed[pi];
                        pi += 1;
                        out.violations.extend(check_log(p, &snaps4[k], &st, &prob, &eff, &format!("solve #{}", k)));
                    }
                }
            }
        }
    }
    for s in &snaps4 {
        statuses.push(format!("{:?}@{}", s.status, s.iterations));
        if s.status == SolverStatus::InsufficientProgress && s.info_step_length != 0.0 {
            probe("c20_rollback_path");
        }
    }
    out.nontrivial = verbose && (plan.short_rate > 0 || plan.eintr_rate > 0);
    out.summary = format!(
        "{} | {} | sink short={}/256 eintr={}/256 | dropped {} | -> {} | {} bytes",
        prob.describe(),
        describe_settings(&settings),
        plan.short_rate,
        plan.eintr_rate,
        eff.n_dropped,
        statuses.join(","),
        buf.len()
    );
    out
}
