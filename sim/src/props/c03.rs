//! C03 — the solver's report about its own result is truthful (interrupted paths).
//!
//! The simulator cuts solves at every iteration index with the simulated
//! clock (MaxTime) or the iteration budget (MaxIterations), re-solves after a
//! cut, and recomputes the report independently from the returned x, s, z and
//! the user's data.

use crate::gen::*;
use crate::harness::*;
use crate::props::c04::{exec_history, SolveOp};
use crate::refmath::Effective;
use crate::refmath::*;
use crate::simcore::*;
use crate::timermodel::analyse;
use crate::Tier;
use clarabel::solver::{DefaultSettings, SolverStatus};
use clarabel::verif::Event as Label;

fn is_infeasible_status(s: SolverStatus) -> bool {
    matches!(
        s,
        SolverStatus::PrimalInfeasible
            | SolverStatus::DualInfeasible
            | SolverStatus::AlmostPrimalInfeasible
            | SolverStatus::AlmostDualInfeasible
    )
}

fn close(reported: f64, t: Tracked) -> bool {
    if reported.is_nan() && t.v.is_nan() {
        return true;
    }
    if !reported.is_finite() || !t.v.is_finite() {
        return reported == t.v;
    }
    (reported - t.v).abs() <= REL * t.abs + 1e-300
}

/// the independent recomputation of one report
pub fn check_report(
    prob: &Prob,
    eff: &Effective,
    settings: &DefaultSettings<f64>,
    snap: &Snap,
    last_iteration_event: Option<u32>,
    tag: &str,
) -> Vec<Violation> {
    let mut v = vec![];
    if snap.x.len() != prob.n || snap.s.len() != prob.m || snap.z.len() != prob.m {
        v.push(Violation::new(
            "C03.lengths",
            format!(
                "{}: returned lengths x={} s={} z={} for n={} m={}",
                tag,
                snap.x.len(),
                snap.s.len(),
                snap.z.len(),
                prob.n,
                prob.m
            ),
        ));
        return v;
    }
    if let Some(it) = last_iteration_event {
        if snap.iterations != it {
            v.push(Violation::new(
                "C03.iterations",
                format!(
                    "{}: reports {} iterations, the last iteration the solver recorded is {}",
                    tag, snap.iterations, it
                ),
            ));
        }
    }
    let finite = snap
        .x
        .iter()
        .chain(&snap.s)
        .chain(&snap.z)
        .all(|a| a.is_finite());
    if !finite {
        probe("c03_nonfinite_iterate");
        return v;
    }
    // with entries beyond 1e50 the squared terms (x'Px, tau-scaled internals) pass
    // 1e100 and intermediate overflow in either party's arithmetic is likely;
    // "agreement to rounding" has no meaning there
    let huge = snap
        .x
        .iter()
        .chain(&snap.s)
        .chain(&snap.z)
        .fold(0.0f64, |m, a| m.max(a.abs()));
    if huge > 1e50 {
        probe("c03_overflow_range_iterate");
        return v;
    }
    let rec = recompute(prob, eff, &snap.x, &snap.s, &snap.z);
    if is_infeasible_status(snap.status) {
        if !(snap.obj_val.is_nan() && snap.obj_val_dual.is_nan()) {
            v.push(Violation::new(
                "C03.infeasible_objective_not_nan",
                format!(
                    "{}: status {:?} reports objectives {:e} / {:e}",
                    tag, snap.status, snap.obj_val, snap.obj_val_dual
                ),
            ));
        }
        match snap.status {
            SolverStatus::PrimalInfeasible | SolverStatus::AlmostPrimalInfeasible => {
                if rec.bz.v - REL * rec.bz.abs > 0.0 {
                    v.push(Violation::new(
                        "C03.certificate_sign",
                        format!("{}: {:?} but b'z = {:e} > 0", tag, snap.status, rec.bz.v),
                    ));
                }
            }
            _ => {
                if rec.qx.v - REL * rec.qx.abs > 0.0 {
                    v.push(Violation::new(
                        "C03.certificate_sign",
                        format!("{}: {:?} but q'x = {:e} > 0", tag, snap.status, rec.qx.v),
                    ));
                }
            }
        }
        return v;
    }
    // A non-finite figure reported for a finite, moderate point: the solver evaluates its
    // figures in homogeneous (tau-scaled) internal variables, which can overflow although
    // x/tau does not.  By the letter this is a disagreement between report and point; it is
    // reported under its own class and key so that it can be listed as a known finding
    // without hiding any other disagreement.
    let reported = [snap.obj_val, snap.obj_val_dual, snap.r_prim, snap.r_dual];
    let recomputed = [rec.obj.v, rec.obj_dual.v, rec.r_prim, rec.r_dual];
    if reported.iter().zip(&recomputed).any(|(a, b)| !a.is_finite() && b.is_finite()) {
        v.push(Violation::keyed(
            "C03.nonfinite_figure",
            "internal_overflow_finite_point",
            format!(
                "{}: status {:?} reports obj_val {:e}, obj_val_dual {:e}, r_prim {:e}, r_dual {:e}; recomputed from the returned point: {:e}, {:e}, {:e}, {:e}",
                tag, snap.status, snap.obj_val, snap.obj_val_dual, snap.r_prim, snap.r_dual,
                rec.obj.v, rec.obj_dual.v, rec.r_prim, rec.r_dual
            ),
        ));
        return v;
    }
    if !close(snap.obj_val, rec.obj) {
        v.push(Violation::new(
            "C03.obj_val",
            format!(
                "{}: status {:?} reports obj_val {:e}, x'Px/2+q'x recomputed from the returned x is {:e} (terms {:e})",
                tag, snap.status, snap.obj_val, rec.obj.v, rec.obj.abs
            ),
        ));
    }
    if !close(snap.obj_val_dual, rec.obj_dual) {
        v.push(Violation::new(
            "C03.obj_val_dual",
            format!(
                "{}: status {:?} reports obj_val_dual {:e}, -b'z-x'Px/2 recomputed is {:e} (terms {:e})",
                tag, snap.status, snap.obj_val_dual, rec.obj_dual.v, rec.obj_dual.abs
            ),
        ));
    }
    let rp_ok = (snap.r_prim.is_nan() && rec.r_prim.is_nan())
        || (snap.r_prim - rec.r_prim).abs() <= rec.r_prim_slack + REL * rec.r_prim + 1e-300;
    if !rp_ok {
        v.push(Violation::new(
            "C03.r_prim",
            format!(
                "{}: status {:?} reports r_prim {:e}, recomputed {:e} (allowance {:e})",
                tag, snap.status, snap.r_prim, rec.r_prim, rec.r_prim_slack
            ),
        ));
    }
    let rd_ok = (snap.r_dual.is_nan() && rec.r_dual.is_nan())
        || (snap.r_dual - rec.r_dual).abs() <= rec.r_dual_slack + REL * rec.r_dual + 1e-300;
    if !rd_ok {
        v.push(Violation::new(
            "C03.r_dual",
            format!(
                "{}: status {:?} reports r_dual {:e}, recomputed {:e} (allowance {:e})",
                tag, snap.status, snap.r_dual, rec.r_dual, rec.r_dual_slack
            ),
        ));
    }
    if snap.status == SolverStatus::AlmostSolved {
        let gap_abs = (rec.obj.v - rec.obj_dual.v).abs();
        let gap_slack = REL * (rec.obj.abs + rec.obj_dual.abs);
        let gap_lo = (gap_abs - gap_slack).max(0.0);
        let den = 1.0f64.max(rec.obj.v.abs().min(rec.obj_dual.v.abs()));
        let gap_ok = gap_lo < settings.reduced_tol_gap_abs || gap_lo / den < settings.reduced_tol_gap_rel * (1.0 + 1e-9);
        let rp = rec.r_prim - rec.r_prim_slack;
        let rd = rec.r_dual - rec.r_dual_slack;
        if !(gap_ok && rp < settings.reduced_tol_feas && rd < settings.reduced_tol_feas) {
            v.push(Violation::new(
                "C03.almost_solved_unjustified",
                format!(
                    "{}: AlmostSolved but recomputed gap {:e} (rel {:e}), r_prim {:e}, r_dual {:e} do not meet the reduced tolerances",
                    tag, gap_abs, gap_abs / den, rec.r_prim, rec.r_dual
                ),
            ));
        }
    }
    v
}

pub fn last_iteration_in(log: &[Ev], from: usize, to: usize) -> Option<u32> {
    let mut last = None;
    for e in &log[from..to.min(log.len())] {
        if let EvKind::Label(Label::Iteration(i)) = e.kind {
            last = Some(i);
        }
    }
    last
}

pub fn run(tier: Tier) -> RunOutcome {
    let mut out = RunOutcome::default();
    let mut opts = match tier {
        Tier::Quick => GenOpts::quick(),
        Tier::Thorough => GenOpts::thorough(),
    };
    opts.max_scale_pow = 3;
    let mut prob = with_sim(|s| gen_problem(&mut s.cs, &opts));
    // some right-hand sides at or above the infinity bound: rows dropped by presolve,
    // entries capped elsewhere - the report is about the reduced problem then
    if chance("plant_inf", 1, 5) {
        let bound = with_sim(|s| s.inf_model);
        crate::props::c20::plant_infinite_bounds(&mut prob, bound, false);
        probe("c03_infinite_bounds_planted");
    }
    let verbose = false;
    let settings = with_sim(|s| gen_settings(&mut s.cs, verbose));

    // calibration: how many clock reads does an uninterrupted history take
    let nsolves = 1 + choose("nsolves", 3) as usize;
    let mut ops: Vec<SolveOp> = (0..nsolves)
        .map(|_| SolveOp::default())
        .collect();
    with_sim(|s| s.clocks[0] = Clock::new(ClockProfile::frozen()));
    api(format!("problem {}", prob.describe()));
    api(format!("settings {}", describe_settings(&settings)));
    let cal = exec_history(0, &prob, &settings, &ops[..1], false, None);
    if cal.new_err.is_some() || cal.snaps.iter().any(|s| s.is_err()) {
        // panics are C04's business; nothing to report on here
        probe("c03_panic_skipped");
        out.summary = format!("{} -> panic (left to C04)", prob.describe());
        return out;
    }
    let cal_iters = cal.snaps[0].as_ref().unwrap().iterations;
    let r_one = cal.reads_total.max(1);

    // interruption plan
    let mut profile = ClockProfile::fine(choose("clkseed", 1 << 16) as u64);
    profile.creep = 1_000_000;
    for op in ops.iter_mut() {
        match choose("cut", 4) {
            0 => {
                // MaxTime cut at a chosen read
                let at = choose("at", r_one as u32 + 1) as u64;
                op.time_limit = secs(at * 1_000_000);
            }
            1 => {
                // MaxIterations cut at a chosen iteration
                op.max_iter = choose("k", cal_iters + 2);
            }
            2 => {
                let at = choose("at", r_one as u32 + 1) as u64;
                op.time_limit = secs(at * 1_000_000);
                op.max_iter = choose("k", cal_iters + 2);
            }
            _ => {}
        }
    }
    with_sim(|s| s.clocks[0] = Clock::new(profile.clone()));
    api(format!("ops {:?}", ops));
    let log1 = with_sim(|s| s.log.len());
    // the history: New; then per solve an optional accepted data update (so that
    // "after any solve" covers solves on updated data), the limits, the solve
    let infb = with_sim(|s| s.inf_model);
    let eff0 = effective(&prob, infb, settings.presolve_enable);
    let updates_allowed = eff0.n_dropped == 0;
    let mut cur = prob.clone();
    cur.b = eff0.b_capped.clone();
    let mut st0 = settings.clone();
    st0.time_limit = ops[0].time_limit;
    st0.max_iter = ops[0].max_iter;
    let Ok(mut solver) = sv_new(1, &prob, st0) else {
        probe("c03_panic_skipped");
        return out;
    };
    {
        use clarabel::io::ConfigurablePrintTarget;
        solver.print_to_sink();
    }
    let mut statuses = vec![];
    let mut interrupted = false;
    let mut n_updates = 0;
    for (k, op) in ops.iter().enumerate() {
        if k > 0 && updates_allowed && chance("update", 1, 2) {
            let which = choose("upd_part", 4);
            let indexed = flag("upd_indexed");
            let newvals = |v: &[f64]| -> Vec<f64> {
                v.iter()
                    .map(|x| if chance("chg", 1, 2) { x + 0.5 * with_sim(|s| s.cs.small("dv")) } else { *x })
                    .collect()
            };
            let r = match which {
                0 => {
                    let nv = newvals(&cur.q);
                    let r = if indexed && !nv.is_empty() {
                        let i = choose("idx", nv.len() as u32) as usize;
                        cur.q[i] = nv[i];
                        solver.update_q(&(vec![i], vec![nv[i]])).is_ok()
                    } else {
                        cur.q = nv.clone();
                        solver.update_q(&nv).is_ok()
                    };
                    r
                }
                1 => {
                    let nv = newvals(&cur.b);
                    if indexed && !nv.is_empty() {
                        let i = choose("idx", nv.len() as u32) as usize;
                        cur.b[i] = nv[i];
                        solver.update_b(&(vec![i], vec![nv[i]])).is_ok()
                    } else {
                        cur.b = nv.clone();
                        solver.update_b(&nv).is_ok()
                    }
                }
                2 => {
                    // positive rescaling keeps P PSD
                    let f = [2.0, 0.5, 3.0][choose("pf", 3) as usize];
                    let nv: Vec<f64> = cur.p_triu.nzval.iter().map(|v| v * f).collect();
                    cur.p_triu.nzval = nv.clone();
                    cur.p_user = cur.p_triu.clone();
                    solver.update_P(&nv).is_ok()
                }
                _ => {
                    let nv = newvals(&cur.a.nzval);
                    if indexed && !nv.is_empty() {
                        let i = choose("idx", nv.len() as u32) as usize;
                        cur.a.nzval[i] = nv[i];
                        solver.update_A(&(vec![i], vec![nv[i]])).is_ok()
                    } else {
                        cur.a.nzval = nv.clone();
                        solver.update_A(&nv).is_ok()
                    }
                }
            };
            call(1, "update", true, format!("part {} indexed {} -> {}", which, indexed, r));
            if !r {
                // a valid update was rejected: C08 judges that; our model is now off
                probe("c03_update_rejected_stop");
                break;
            }
            n_updates += 1;
            probe("c03_solves_after_update");
        }
        solver.settings.time_limit = op.time_limit;
        solver.settings.max_iter = op.max_iter;
        let Ok(snap) = sv_solve(1, &mut solver) else {
            probe("c03_panic_skipped");
            break;
        };
        statuses.push(format!("{:?}@{}", snap.status, snap.iterations));
        if !matches!(
            snap.status,
            SolverStatus::Solved | SolverStatus::PrimalInfeasible | SolverStatus::DualInfeasible
        ) {
            interrupted = true;
        }
        match snap.status {
            SolverStatus::MaxTime => probe("c03_maxtime"),
            SolverStatus::MaxIterations => probe("c03_maxiter"),
            SolverStatus::AlmostSolved => probe("c03_almost_solved"),
            SolverStatus::AlmostPrimalInfeasible | SolverStatus::AlmostDualInfeasible => {
                probe("c03_almost_infeasible")
            }
            SolverStatus::InsufficientProgress => probe("c03_insufficient_progress"),
            SolverStatus::NumericalError => probe("c03_numerical_error"),
            _ => {}
        }
        let (traces, log_copy) = with_sim(|s| (analyse(&s.log[log1..]), s.log[log1..].to_vec()));
        let last_it = traces
            .iter()
            .filter(|t| t.sid == 1)
            .last()
            .and_then(|tr| last_iteration_in(&log_copy, tr.ev_begin, tr.ev_end));
        // the data this solve worked on: the user's (updated) data, b capped
        let eff = if updates_allowed {
            Effective {
                keep: vec![true; cur.m],
                b_capped: cur.b.iter().map(|v| v.min(infb)).collect(),
                n_dropped: 0,
            }
        } else {
            eff0.clone()
        };
        let data = if updates_allowed { &cur } else { &prob };
        out.violations.extend(check_report(
            data,
            &eff,
            &settings,
            &snap,
            last_it,
            &format!("solve #{} (after {} updates)", k, n_updates),
        ));
    }
    out.nontrivial = interrupted;
    out.summary = format!(
        "{} | {} | cuts {:?} | -> {}",
        prob.describe(),
        describe_settings(&settings),
        ops.iter().map(|o| (o.time_limit, o.max_iter)).collect::<Vec<_>>(),
        statuses.join(",")
    );
    out
}
