pub mod c03;
pub mod c04;
pub mod c05;
pub mod c08;
pub mod c09;
pub mod c19;
pub mod c20;
