pub mod c04;
