//! Process-global simulator state: event log, simulated clocks, simulated
//! sinks, infinity-register model and the baton scheduler for simulated
//! threads.  One process simulates one run at a time.

use crate::choice::{mix, ChoiceStream};
use clarabel::verif::Event as Label;
use std::cell::Cell;
use std::collections::BTreeMap;
use std::io::{self, Write};
use std::sync::{Condvar, Mutex, MutexGuard};

// ---------------------------------------------------------------
// clock profiles
// ---------------------------------------------------------------

#[derive(Clone, Debug, PartialEq)]
pub enum ClockKind {
    Frozen,
    Fine,
    Coarse,
}

#[derive(Clone, Debug)]
pub struct ClockProfile {
    pub kind: ClockKind,
    pub seed: u64,
    /// (read index, extra delta in ns)
    pub jumps: Vec<(u64, u64)>,
    /// (print span number, delta in ns): time that passes while the sink is blocked
    pub print_stall: Option<(u64, u64)>,
    /// constant extra delta per read (creep)
    pub creep: u64,
}

impl ClockProfile {
    pub fn frozen() -> Self {
        ClockProfile {
            kind: ClockKind::Frozen,
            seed: 0,
            jumps: vec![],
            print_stall: None,
            creep: 0,
        }
    }
    pub fn fine(seed: u64) -> Self {
        ClockProfile {
            kind: ClockKind::Fine,
            seed,
            jumps: vec![],
            print_stall: None,
            creep: 0,
        }
    }
    fn base(&self, idx: u64) -> u64 {
        match self.kind {
            ClockKind::Frozen => 0,
            ClockKind::Fine => 1 + mix(self.seed, idx) % 1000,
            ClockKind::Coarse => {
                let h = mix(self.seed, idx);
                // bursty: mostly microseconds, sometimes up to 10 ms
                if h % 16 == 0 {
                    1_000 + (h >> 8) % 10_000_000
                } else {
                    1_000 + (h >> 8) % 50_000
                }
            }
        }
    }
    pub fn describe(&self) -> String {
        format!(
            "{:?} jumps={:?} print_stall={:?} creep={}",
            self.kind, self.jumps, self.print_stall, self.creep
        )
    }
}

pub struct Clock {
    pub profile: ClockProfile,
    pub now: u64,
    pub idx: u64,
    pub resume_first: bool,
    pub stall_pending: bool,
    pub print_spans: u64,
}

impl Clock {
    pub fn new(profile: ClockProfile) -> Self {
        Clock {
            profile,
            now: 1_000_000, // arbitrary non-zero epoch
            idx: 0,
            resume_first: false,
            stall_pending: false,
            print_spans: 0,
        }
    }
    /// advance as a read would, without logging (used to place time limits)
    pub fn step_for_estimate(&mut self) {
        self.read();
    }
    /// returns (read index, delta, now, part of delta that is print-span time)
    fn read(&mut self) -> (u64, u64, u64, u64) {
        let idx = self.idx;
        let mut d = self.profile.base(idx) + self.profile.creep;
        for &(j, extra) in &self.profile.jumps {
            if j == idx {
                d += extra;
            }
        }
        // time that passed while the sink was blocked inside a print span: it is
        // observed by the first clock read after the span, wherever that read is
        let mut stall = 0;
        if self.stall_pending {
            self.stall_pending = false;
            if let Some((span, extra)) = self.profile.print_stall {
                if span + 1 == self.print_spans {
                    d += extra;
                    stall = extra;
                }
            }
        }
        self.resume_first = false;
        self.now += d;
        self.idx += 1;
        (idx, d, self.now, stall)
    }
}

// ---------------------------------------------------------------
// sinks
// ---------------------------------------------------------------

#[derive(Clone, Debug, PartialEq)]
pub enum SinkFault {
    Short,
    Interrupted,
    Hard(io::ErrorKind),
    ZeroLen,
}

#[derive(Clone, Debug, Default)]
pub struct SinkPlan {
    pub seed: u64,
    /// per-call probability (out of 256) of a short write / EINTR
    pub short_rate: u32,
    pub eintr_rate: u32,
    /// a hard fault at a given call index
    pub hard_at: Option<(u32, SinkFault)>,
    /// flush error at given flush index
    pub flush_err_at: Option<u32>,
}

#[derive(Default)]
pub struct SinkState {
    pub plan: SinkPlan,
    pub calls: u32,
    pub flushes: u32,
    pub accepted: Vec<u8>,
    pub n_short: u32,
    pub n_eintr: u32,
    pub n_hard: u32,
    pub n_flush_err: u32,
    pub consecutive_eintr: u32,
}

#[derive(Clone, Debug, PartialEq)]
pub enum SinkOutcome {
    Ok(u32),
    Short(u32),
    Interrupted,
    Hard,
    Zero,
    FlushOk,
    FlushErr,
}

pub struct SimWriter {
    pub id: usize,
}

impl Write for SimWriter {
    fn write(&mut self, buf: &[u8]) -> io::Result<usize> {
        yield_point();
        let mut g = sim();
        let s = g.as_mut().expect("sim not installed");
        let th = my_id() as u8;
        let st = &mut s.sinks[self.id];
        let call = st.calls;
        st.calls += 1;
        let len = buf.len();
        let h = mix(st.plan.seed, call as u64);
        let mut outcome = SinkOutcome::Ok(len as u32);
        let mut result: io::Result<usize> = Ok(len);
        if let Some((at, ref f)) = st.plan.hard_at {
            if call >= at {
                match f {
                    SinkFault::ZeroLen => {
                        outcome = SinkOutcome::Zero;
                        result = Ok(0);
                    }
                    SinkFault::Hard(kind) => {
                        outcome = SinkOutcome::Hard;
                        result = Err(io::Error::new(*kind, "simulated sink failure"));
                    }
                    _ => {}
                }
                st.n_hard += 1;
            }
        }
        if outcome == SinkOutcome::Ok(len as u32) && len > 0 {
            // never more than 3 EINTR in a row: a real signal storm ends
            if (h % 256) < st.plan.eintr_rate as u64 && st.consecutive_eintr < 3 {
                st.consecutive_eintr += 1;
                st.n_eintr += 1;
                outcome = SinkOutcome::Interrupted;
                result = Err(io::Error::new(io::ErrorKind::Interrupted, "simulated EINTR"));
            } else {
                st.consecutive_eintr = 0;
                if ((h >> 8) % 256) < st.plan.short_rate as u64 && len > 1 {
                    let k = 1 + ((h >> 16) as usize % (len - 1));
                    st.n_short += 1;
                    outcome = SinkOutcome::Short(k as u32);
                    result = Ok(k);
                }
            }
        }
        if let Ok(k) = result {
            st.accepted.extend_from_slice(&buf[..k]);
        }
        s.push(
            th,
            EvKind::Sink {
                sink: self.id as u8,
                call,
                len: len as u32,
                outcome,
            },
        );
        result
    }

    fn flush(&mut self) -> io::Result<()> {
        yield_point();
        let mut g = sim();
        let s = g.as_mut().expect("sim not installed");
        let th = my_id() as u8;
        let st = &mut s.sinks[self.id];
        let fl = st.flushes;
        st.flushes += 1;
        let bad = st.plan.flush_err_at == Some(fl);
        if bad {
            st.n_flush_err += 1;
        }
        let call = st.calls;
        s.push(
            th,
            EvKind::Sink {
                sink: self.id as u8,
                call,
                len: 0,
                outcome: if bad {
                    SinkOutcome::FlushErr
                } else {
                    SinkOutcome::FlushOk
                },
            },
        );
        if bad {
            Err(io::Error::new(io::ErrorKind::Other, "simulated flush failure"))
        } else {
            Ok(())
        }
    }
}

// ---------------------------------------------------------------
// events
// ---------------------------------------------------------------

#[derive(Clone, Debug, PartialEq)]
pub enum EvKind {
    /// `stall` = the part of delta that elapsed inside a print span (blocked sink)
    Clock { idx: u64, delta: u64, now: u64, stall: u64 },
    Label(Label),
    InfRead(u64), // bits of the register value the following load observes
    Api(String),
    /// invoke / return of a public-API call on solver `sid`
    Call { sid: u32, op: &'static str, ret: bool, detail: String },
    Sink { sink: u8, call: u32, len: u32, outcome: SinkOutcome },
    Sched { to: u8 },
    Note(String),
}

#[derive(Clone, Debug, PartialEq)]
pub struct Ev {
    pub th: u8,
    pub kind: EvKind,
}

impl Ev {
    pub fn render(&self) -> String {
        match &self.kind {
            EvKind::Clock { idx, delta, now, stall } => {
                if *stall > 0 {
                    format!("t{} clock#{} +{}ns ={} (print span {}ns)", self.th, idx, delta, now, stall)
                } else {
                    format!("t{} clock#{} +{}ns ={}", self.th, idx, delta, now)
                }
            }
            EvKind::Label(l) => format!("t{} {:?}", self.th, l),
            EvKind::InfRead(b) => format!("t{} InfRead {:e}", self.th, f64::from_bits(*b)),
            EvKind::Api(s) => format!("t{} {}", self.th, s),
            EvKind::Call { sid, op, ret, detail } => format!(
                "t{} {} s{}.{} {}",
                self.th,
                if *ret { "return" } else { "invoke" },
                sid,
                op,
                detail
            ),
            EvKind::Sink {
                sink,
                call,
                len,
                outcome,
            } => format!("t{} sink{} call#{} len={} {:?}", self.th, sink, call, len, outcome),
            EvKind::Sched { to } => format!("t{} -> t{}", self.th, to),
            EvKind::Note(s) => format!("t{} note {}", self.th, s),
        }
    }
    /// abstraction used to count distinct interleavings / fault placements:
    /// (thread, event kind, fault kind), values dropped
    fn shape(&self) -> u64 {
        let k: u64 = match &self.kind {
            EvKind::Clock { delta, .. } => {
                // bucket the delta: 0, small, large (a jump)
                if *delta == 0 {
                    1
                } else if *delta < 1_000_000_000 {
                    2
                } else {
                    3
                }
            }
            EvKind::Label(l) => match l {
                Label::TimerStart(k) => 10 + (k.len() as u64 % 7),
                Label::TimerStop => 20,
                Label::TimerReset(_) => 21,
                Label::SuspendBegin => 22,
                Label::SuspendEnd => 23,
                Label::ResumeBegin => 24,
                Label::ResumeEnd => 25,
                Label::Iteration(_) => 26,
                Label::InfGet => 27,
                Label::InfSet => 28,
                Label::InfDefault => 29,
                Label::Yield => 31,
            },
            EvKind::InfRead(_) => 30,
            EvKind::Api(s) => 40 + (s.split(' ').next().map(|w| w.len()).unwrap_or(0) as u64),
            EvKind::Call { op, ret, .. } => 90 + 2 * (op.len() as u64 % 13) + *ret as u64,
            EvKind::Sink { outcome, .. } => match outcome {
                SinkOutcome::Ok(_) => 60,
                SinkOutcome::Short(_) => 61,
                SinkOutcome::Interrupted => 62,
                SinkOutcome::Hard => 63,
                SinkOutcome::Zero => 64,
                SinkOutcome::FlushOk => 65,
                SinkOutcome::FlushErr => 66,
            },
            EvKind::Sched { to } => 70 + *to as u64,
            EvKind::Note(_) => 80,
        };
        k * 16 + self.th as u64
    }
}

// ---------------------------------------------------------------
// the simulator object
// ---------------------------------------------------------------

pub const EVENT_CAP_PANIC: &str = "SIM_EVENT_CAP_EXCEEDED";

pub struct Sim {
    pub cs: ChoiceStream,
    pub log: Vec<Ev>,
    pub hash: u64,
    pub shape_hash: u64,
    pub clocks: Vec<Clock>,
    pub sinks: Vec<SinkState>,
    pub inf_model: f64,
    pub quiet: bool,
    pub event_cap: usize,
    pub sched_bias: u32,
    pub n_switches: u64,
    pub probes: BTreeMap<&'static str, u64>,
    pub total_sim_ns: u64,
    /// when false, events are hashed and counted but not stored
    pub store_log: bool,
    pub n_events: u64,
    pub cap_hit: bool,
    /// per simulated thread: the next scheduling point is logged (set at every iteration
    /// record, so the log shows whether numerical work followed a boundary)
    pub log_next_yield: [bool; 32],
    /// hash over the bit patterns of everything every solve returned (status, iterations,
    /// x, s, z, objectives, residuals - not solve_time): what "the same result" means
    pub result_hash: u64,
}

impl Sim {
    pub fn new(cs: ChoiceStream) -> Self {
        Sim {
            cs,
            log: Vec::new(),
            hash: 0xcbf29ce484222325,
            shape_hash: 0xcbf29ce484222325,
            clocks: vec![Clock::new(ClockProfile::frozen())],
            sinks: Vec::new(),
            inf_model: clarabel::INFINITY_DEFAULT,
            quiet: false,
            event_cap: 200_000,
            sched_bias: 1,
            n_switches: 0,
            probes: BTreeMap::new(),
            total_sim_ns: 0,
            store_log: true,
            n_events: 0,
            cap_hit: false,
            log_next_yield: [false; 32],
            result_hash: 0xcbf29ce484222325,
        }
    }
    pub fn fold_result(&mut self, word: u64) {
        for b in word.to_le_bytes() {
            self.result_hash ^= b as u64;
            self.result_hash = self.result_hash.wrapping_mul(0x100000001b3);
        }
    }
    pub fn push(&mut self, th: u8, kind: EvKind) {
        let ev = Ev { th, kind };
        let r = ev.render();
        for b in r.as_bytes() {
            self.hash ^= *b as u64;
            self.hash = self.hash.wrapping_mul(0x100000001b3);
        }
        self.hash ^= 0xff;
        self.hash = self.hash.wrapping_mul(0x100000001b3);
        self.shape_hash ^= ev.shape();
        self.shape_hash = self.shape_hash.wrapping_mul(0x100000001b3);
        self.n_events += 1;
        if self.store_log && !self.cap_hit {
            self.log.push(ev);
        }
        if self.log.len() > self.event_cap && !self.cap_hit {
            // unwinds (once) out of the library call that produced the event; the
            // harness's own later events are counted but no longer stored
            self.cap_hit = true;
            panic!("{}", EVENT_CAP_PANIC);
        }
    }
    pub fn probe(&mut self, name: &'static str) {
        *self.probes.entry(name).or_insert(0) += 1;
    }
    pub fn probe_n(&mut self, name: &'static str, n: u64) {
        *self.probes.entry(name).or_insert(0) += n;
    }
    pub fn new_sink(&mut self, plan: SinkPlan) -> usize {
        self.sinks.push(SinkState {
            plan,
            ..Default::default()
        });
        self.sinks.len() - 1
    }
}

static SIM: Mutex<Option<Sim>> = Mutex::new(None);

pub fn sim() -> MutexGuard<'static, Option<Sim>> {
    match SIM.lock() {
        Ok(g) => g,
        Err(p) => p.into_inner(), // a caught panic inside the library must not wedge the simulator
    }
}

pub fn with_sim<R>(f: impl FnOnce(&mut Sim) -> R) -> R {
    let mut g = sim();
    f(g.as_mut().expect("sim not installed"))
}

pub fn install(s: Sim) {
    *sim() = Some(s);
    clarabel::verif::set_clock_hook(Some(clock_hook));
    clarabel::verif::set_event_hook(Some(event_hook));
}

pub fn uninstall() -> Sim {
    clarabel::verif::set_clock_hook(None);
    clarabel::verif::set_event_hook(None);
    baton_reset();
    sim().take().expect("sim not installed")
}

/// convenience wrappers
pub fn choose(tag: &str, n: u32) -> u32 {
    with_sim(|s| s.cs.choose(tag, n))
}
pub fn flag(tag: &str) -> bool {
    with_sim(|s| s.cs.flag(tag))
}
pub fn chance(tag: &str, num: u32, den: u32) -> bool {
    with_sim(|s| s.cs.prob(tag, num, den))
}
pub fn api(msg: String) {
    let th = my_id() as u8;
    with_sim(|s| s.push(th, EvKind::Api(msg)));
}
pub fn call(sid: u32, op: &'static str, ret: bool, detail: String) {
    let th = my_id() as u8;
    with_sim(|s| {
        s.push(
            th,
            EvKind::Call {
                sid,
                op,
                ret,
                detail,
            },
        )
    });
}
pub fn note(msg: String) {
    let th = my_id() as u8;
    with_sim(|s| s.push(th, EvKind::Note(msg)));
}
pub fn probe(name: &'static str) {
    with_sim(|s| s.probe(name));
}

// ---------------------------------------------------------------
// hooks
// ---------------------------------------------------------------

fn clock_hook() -> u64 {
    yield_point();
    let th = my_id();
    let mut g = sim();
    let s = g.as_mut().expect("clock hook without sim");
    let (idx, delta, now, stall) = s.clocks[th].read();
    s.total_sim_ns += delta;
    s.push(th as u8, EvKind::Clock { idx, delta, now, stall });
    now
}

fn event_hook(ev: Label) {
    let th = my_id();
    {
        let g = sim();
        if let Some(s) = g.as_ref() {
            if s.quiet {
                return;
            }
        } else {
            return;
        }
    }
    match ev {
        // pure scheduling point: only the first one after an iteration record is logged
        // (a hand-off, if any, always is)
        Label::Yield => {
            with_sim(|s| {
                if s.log_next_yield[th % 32] {
                    s.log_next_yield[th % 32] = false;
                    s.push(th as u8, EvKind::Label(ev));
                }
            });
            yield_point()
        }
        Label::Iteration(_) => with_sim(|s| {
            s.log_next_yield[th % 32] = true;
            s.push(th as u8, EvKind::Label(ev));
        }),
        Label::InfGet | Label::InfSet | Label::InfDefault => {
            // the accessor is a yield point: another simulated thread may run
            // between the call and the atomic access it announces
            with_sim(|s| s.push(th as u8, EvKind::Label(ev)));
            yield_point();
            if ev == Label::InfGet {
                with_sim(|s| {
                    let b = s.inf_model.to_bits();
                    s.push(th as u8, EvKind::InfRead(b))
                });
            }
        }
        Label::ResumeBegin => with_sim(|s| {
            s.clocks[th].resume_first = true;
            s.clocks[th].stall_pending = true;
            s.clocks[th].print_spans += 1;
            s.push(th as u8, EvKind::Label(ev));
        }),
        Label::ResumeEnd => with_sim(|s| {
            s.clocks[th].resume_first = false;
            s.push(th as u8, EvKind::Label(ev));
        }),
        _ => with_sim(|s| s.push(th as u8, EvKind::Label(ev))),
    }
}

// ---------------------------------------------------------------
// the infinity register (harness side)
// ---------------------------------------------------------------

/// harness-side store: logs, calls the real function (which yields first),
/// then updates the model while still holding the baton
pub fn sim_set_infinity(v: f64) {
    api(format!("set_infinity({:e})", v));
    clarabel::set_infinity(v);
    // still holding the baton: the store and the model update are one step
    let th = my_id() as u8;
    with_sim(|s| {
        s.inf_model = v;
        s.push(th, EvKind::Note(format!("inf_model={}", v.to_bits())));
    });
}
pub fn sim_default_infinity() {
    api("default_infinity()".to_string());
    clarabel::default_infinity();
    let th = my_id() as u8;
    with_sim(|s| {
        s.inf_model = clarabel::INFINITY_DEFAULT;
        s.push(
            th,
            EvKind::Note(format!("inf_model={}", clarabel::INFINITY_DEFAULT.to_bits())),
        );
    });
}
/// read the real global without producing events or yielding
pub fn quiet_get_infinity() -> f64 {
    with_sim(|s| s.quiet = true);
    let v = clarabel::get_infinity();
    with_sim(|s| s.quiet = false);
    v
}
/// set the real global and the model without producing events or yielding
pub fn quiet_set_infinity(v: f64) {
    with_sim(|s| s.quiet = true);
    clarabel::set_infinity(v);
    with_sim(|s| {
        s.quiet = false;
        s.inf_model = v
    });
}

// ---------------------------------------------------------------
// baton scheduler
// ---------------------------------------------------------------

thread_local! {
    static MY_ID: Cell<usize> = const { Cell::new(0) };
}
pub fn my_id() -> usize {
    MY_ID.with(|c| c.get())
}

const MAIN: usize = usize::MAX;

struct Baton {
    active: bool,
    cur: usize,
    done: Vec<bool>,
}

static BATON: Mutex<Baton> = Mutex::new(Baton {
    active: false,
    cur: MAIN,
    done: Vec::new(),
});
static BATON_CV: Condvar = Condvar::new();

fn baton() -> MutexGuard<'static, Baton> {
    match BATON.lock() {
        Ok(g) => g,
        Err(p) => p.into_inner(),
    }
}

fn baton_reset() {
    let mut b = baton();
    b.active = false;
    b.cur = MAIN;
    b.done.clear();
}

/// every seam call is a yield point; a no-op unless simulated threads are running
pub fn yield_point() {
    let me = my_id();
    let runnable: Vec<usize> = {
        let b = baton();
        if !b.active {
            return;
        }
        debug_assert_eq!(b.cur, me);
        // me first so that choice 0 == "keep running"
        let mut r = vec![me];
        for (i, d) in b.done.iter().enumerate() {
            if !*d && i != me {
                r.push(i);
            }
        }
        r
    };
    if runnable.len() == 1 {
        return;
    }
    let next = with_sim(|s| {
        let n = runnable.len() as u32;
        let v = s.cs.choose("sched", n * s.sched_bias);
        let k = if v < n { v as usize } else { 0 };
        let next = runnable[k];
        if next != me {
            s.n_switches += 1;
            s.push(me as u8, EvKind::Sched { to: next as u8 });
        }
        next
    });
    if next != me {
        let mut b = baton();
        b.cur = next;
        BATON_CV.notify_all();
        while b.cur != me {
            b = match BATON_CV.wait(b) {
                Ok(g) => g,
                Err(p) => p.into_inner(),
            };
        }
    }
}

/// Run the given closures as simulated threads under the baton; returns each
/// thread's result (Err = panic message).  Thread ids are 0..n; each has its
/// own simulated clock (`clocks[i]` must exist).
pub fn run_threads<R: Send + 'static>(
    bodies: Vec<Box<dyn FnOnce() -> R + Send + 'static>>,
) -> Vec<Result<R, String>> {
    let n = bodies.len();
    {
        let mut b = baton();
        b.active = true;
        b.cur = MAIN;
        b.done = vec![false; n];
    }
    let mut handles = Vec::new();
    for (i, body) in bodies.into_iter().enumerate() {
        let h = std::thread::Builder::new()
            .stack_size(8 << 20)
            .spawn(move || {
                MY_ID.with(|c| c.set(i));
                // wait for the baton
                {
                    let mut b = baton();
                    while b.cur != i {
                        b = match BATON_CV.wait(b) {
                            Ok(g) => g,
                            Err(p) => p.into_inner(),
                        };
                    }
                }
                let r = std::panic::catch_unwind(std::panic::AssertUnwindSafe(body));
                let r = r.map_err(|e| crate::panic_message(&e));
                // finished: hand the baton to someone else
                let remaining: Vec<usize> = {
                    let mut b = baton();
                    b.done[i] = true;
                    b.done
                        .iter()
                        .enumerate()
                        .filter(|(_, d)| !**d)
                        .map(|(j, _)| j)
                        .collect()
                };
                let next = if remaining.is_empty() {
                    MAIN
                } else {
                    with_sim(|s| {
                        let k = s.cs.choose("sched_exit", remaining.len() as u32) as usize;
                        s.push(i as u8, EvKind::Sched { to: remaining[k] as u8 });
                        remaining[k]
                    })
                };
                let mut b = baton();
                b.cur = next;
                BATON_CV.notify_all();
                drop(b);
                r
            })
            .expect("spawn");
        handles.push(h);
    }
    // start: pick the first thread
    let first = with_sim(|s| s.cs.choose("sched_first", n as u32) as usize);
    {
        let mut b = baton();
        b.cur = first;
        BATON_CV.notify_all();
        while b.cur != MAIN {
            b = match BATON_CV.wait(b) {
                Ok(g) => g,
                Err(p) => p.into_inner(),
            };
        }
        b.active = false;
    }
    let out = handles
        .into_iter()
        .map(|h| h.join().unwrap_or_else(|_| Err("thread join failed".to_string())))
        .collect();
    MY_ID.with(|c| c.set(0));
    out
}
