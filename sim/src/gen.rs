//! Workload generation: small conic problems with a planted strictly feasible
//! primal-dual pair (so that faults have in-flight state to land on), plus
//! strongly infeasible / unbounded variants, and randomised settings.
//! Everything is drawn from the choice stream; 0 is always the simplest choice.

use crate::choice::ChoiceStream;
use clarabel::algebra::CscMatrix;
use clarabel::solver::{DefaultSettings, SupportedConeT};

#[derive(Clone, Debug, PartialEq)]
pub enum ConeSpec {
    Zero(usize),
    Nonneg(usize),
    Soc(usize),
    Exp,
    Pow(f64),
    GenPow(Vec<f64>, usize),
}

impl ConeSpec {
    pub fn dim(&self) -> usize {
        match self {
            ConeSpec::Zero(d) | ConeSpec::Nonneg(d) | ConeSpec::Soc(d) => *d,
            ConeSpec::Exp | ConeSpec::Pow(_) => 3,
            ConeSpec::GenPow(a, d2) => a.len() + d2,
        }
    }
    pub fn to_clarabel(&self) -> SupportedConeT<f64> {
        match self {
            ConeSpec::Zero(d) => SupportedConeT::ZeroConeT(*d),
            ConeSpec::Nonneg(d) => SupportedConeT::NonnegativeConeT(*d),
            ConeSpec::Soc(d) => SupportedConeT::SecondOrderConeT(*d),
            ConeSpec::Exp => SupportedConeT::ExponentialConeT(),
            ConeSpec::Pow(a) => SupportedConeT::PowerConeT(*a),
            ConeSpec::GenPow(a, d2) => SupportedConeT::GenPowerConeT(a.clone(), *d2),
        }
    }
    pub fn is_symmetric(&self) -> bool {
        matches!(self, ConeSpec::Zero(_) | ConeSpec::Nonneg(_) | ConeSpec::Soc(_))
    }
    pub fn short(&self) -> String {
        match self {
            ConeSpec::Zero(d) => format!("Z{}", d),
            ConeSpec::Nonneg(d) => format!("N{}", d),
            ConeSpec::Soc(d) => format!("S{}", d),
            ConeSpec::Exp => "E".to_string(),
            ConeSpec::Pow(a) => format!("P{}", a),
            ConeSpec::GenPow(a, d2) => format!("G{:?}/{}", a, d2),
        }
    }
}

/// canonical CSC matrix, our own copy (all maths on it is done by refmath.rs,
/// not by the library under test)
#[derive(Clone, Debug, PartialEq)]
pub struct Mat {
    pub m: usize,
    pub n: usize,
    pub colptr: Vec<usize>,
    pub rowval: Vec<usize>,
    pub nzval: Vec<f64>,
}

impl Mat {
    pub fn zeros(m: usize, n: usize) -> Self {
        Mat {
            m,
            n,
            colptr: vec![0; n + 1],
            rowval: vec![],
            nzval: vec![],
        }
    }
    /// from a dense column-major closure with a structural mask
    pub fn from_dense(m: usize, n: usize, f: impl Fn(usize, usize) -> Option<f64>) -> Self {
        let mut colptr = vec![0usize; n + 1];
        let mut rowval = vec![];
        let mut nzval = vec![];
        for j in 0..n {
            for i in 0..m {
                if let Some(v) = f(i, j) {
                    rowval.push(i);
                    nzval.push(v);
                }
            }
            colptr[j + 1] = rowval.len();
        }
        Mat {
            m,
            n,
            colptr,
            rowval,
            nzval,
        }
    }
    pub fn nnz(&self) -> usize {
        self.nzval.len()
    }
    pub fn to_clarabel(&self) -> CscMatrix<f64> {
        CscMatrix::new(
            self.m,
            self.n,
            self.colptr.clone(),
            self.rowval.clone(),
            self.nzval.clone(),
        )
    }
    pub fn from_clarabel(c: &CscMatrix<f64>) -> Self {
        Mat {
            m: c.m,
            n: c.n,
            colptr: c.colptr.clone(),
            rowval: c.rowval.clone(),
            nzval: c.nzval.clone(),
        }
    }
    /// (row, col) of the k-th stored entry
    pub fn coord(&self, k: usize) -> (usize, usize) {
        let mut j = 0;
        while self.colptr[j + 1] <= k {
            j += 1;
        }
        (self.rowval[k], j)
    }
    pub fn coords(&self) -> Vec<(usize, usize)> {
        let mut out = Vec::with_capacity(self.nnz());
        for j in 0..self.n {
            for k in self.colptr[j]..self.colptr[j + 1] {
                out.push((self.rowval[k], j));
            }
        }
        out
    }
    /// keep only rows with keep[i]
    pub fn select_rows(&self, keep: &[bool]) -> Mat {
        let mut newidx = vec![usize::MAX; self.m];
        let mut c = 0;
        for i in 0..self.m {
            if keep[i] {
                newidx[i] = c;
                c += 1;
            }
        }
        let mut colptr = vec![0usize; self.n + 1];
        let mut rowval = vec![];
        let mut nzval = vec![];
        for j in 0..self.n {
            for k in self.colptr[j]..self.colptr[j + 1] {
                let i = self.rowval[k];
                if keep[i] {
                    rowval.push(newidx[i]);
                    nzval.push(self.nzval[k]);
                }
            }
            colptr[j + 1] = rowval.len();
        }
        Mat {
            m: c,
            n: self.n,
            colptr,
            rowval,
            nzval,
        }
    }
    /// upper triangle (incl. diagonal) of a square matrix
    pub fn triu(&self) -> Mat {
        let mut colptr = vec![0usize; self.n + 1];
        let mut rowval = vec![];
        let mut nzval = vec![];
        for j in 0..self.n {
            for k in self.colptr[j]..self.colptr[j + 1] {
                if self.rowval[k] <= j {
                    rowval.push(self.rowval[k]);
                    nzval.push(self.nzval[k]);
                }
            }
            colptr[j + 1] = rowval.len();
        }
        Mat {
            m: self.m,
            n: self.n,
            colptr,
            rowval,
            nzval,
        }
    }
}

#[derive(Clone, Debug, PartialEq)]
pub enum ProbKind {
    Feasible,
    PrimalInfeasible,
    DualInfeasible,
}

#[derive(Clone, Debug)]
pub struct Prob {
    pub n: usize,
    pub m: usize,
    /// P as handed to the solver (upper triangle, or full symmetric)
    pub p_user: Mat,
    /// upper triangle of P
    pub p_triu: Mat,
    pub q: Vec<f64>,
    pub a: Mat,
    pub b: Vec<f64>,
    pub cones: Vec<ConeSpec>,
    pub kind: ProbKind,
    /// planted strictly feasible pair (x0, s0, z0), for Feasible problems
    pub planted: Option<(Vec<f64>, Vec<f64>, Vec<f64>)>,
}

impl Prob {
    pub fn cones_clarabel(&self) -> Vec<SupportedConeT<f64>> {
        self.cones.iter().map(|c| c.to_clarabel()).collect()
    }
    pub fn is_symmetric(&self) -> bool {
        self.cones.iter().all(|c| c.is_symmetric())
    }
    pub fn describe(&self) -> String {
        format!(
            "n={} m={} nnzP={} nnzA={} cones=[{}] kind={:?}",
            self.n,
            self.m,
            self.p_triu.nnz(),
            self.a.nnz(),
            self.cones
                .iter()
                .map(|c| c.short())
                .collect::<Vec<_>>()
                .join(","),
            self.kind
        )
    }
    /// index of the cone containing each row
    pub fn row_cone(&self) -> Vec<usize> {
        let mut out = Vec::with_capacity(self.m);
        for (ci, c) in self.cones.iter().enumerate() {
            for _ in 0..c.dim() {
                out.push(ci);
            }
        }
        out
    }
}

#[derive(Clone, Debug)]
pub struct GenOpts {
    pub nmax: u32,
    pub max_cones: u32,
    pub max_cone_dim: u32,
    pub allow_nonsymmetric: bool,
    pub allow_empty: bool,     // m == 0, empty cones
    pub allow_infeasible: bool,
    pub max_scale_pow: u32,    // row/col scalings 10^[-k,k]
    pub allow_zero_cone: bool,
    pub force_nonneg: bool,    // always include at least one nonnegative cone
    pub allow_soc1: bool,      // singleton second-order cones (consolidated into nonnegative cones)
    pub degenerate: bool,      // empty cones, duplicated rows, zero columns (boundary shapes)
    pub degenerate_chance: u32, // out of 8: chance that a problem is generated with `degenerate` on
}

impl GenOpts {
    pub fn quick() -> Self {
        GenOpts {
            nmax: 6,
            max_cones: 4,
            max_cone_dim: 4,
            allow_nonsymmetric: true,
            allow_empty: true,
            allow_infeasible: true,
            max_scale_pow: 3,
            allow_zero_cone: true,
            force_nonneg: false,
            allow_soc1: false,
            degenerate: false,
            degenerate_chance: 1,
        }
    }
    pub fn thorough() -> Self {
        GenOpts {
            nmax: 20,
            max_cones: 8,
            max_cone_dim: 8,
            ..Self::quick()
        }
    }
}

fn pos(cs: &mut ChoiceStream, tag: &str) -> f64 {
    // strictly positive "nice" value; 0 -> 1.0
    const T: [f64; 8] = [1.0, 2.0, 0.5, 3.0, 0.25, 1.5, 4.0, 0.1];
    T[cs.choose(tag, 8) as usize]
}

pub fn interior_point(cs: &mut ChoiceStream, cone: &ConeSpec, dual: bool) -> Vec<f64> {
    if cone.dim() == 0 {
        return vec![];
    }
    match cone {
        ConeSpec::Zero(d) => {
            if dual {
                (0..*d).map(|_| cs.small("z0")).collect()
            } else {
                vec![0.0; *d]
            }
        }
        ConeSpec::Nonneg(d) => (0..*d).map(|_| pos(cs, "nn0")).collect(),
        ConeSpec::Soc(d) => {
            let v: Vec<f64> = (1..*d).map(|_| cs.small("soc0")).collect();
            let nrm = v.iter().map(|x| x * x).sum::<f64>().sqrt();
            let t = nrm + pos(cs, "socm");
            let mut out = vec![t];
            out.extend(v);
            out
        }
        ConeSpec::Exp => {
            if !dual {
                // y > 0, y*exp(x/y) <= z
                let x = cs.small("ex");
                let y = pos(cs, "ey");
                let z = y * (x / y).exp() * (1.0 + pos(cs, "em"));
                vec![x, y, z]
            } else {
                // u < 0, -u*exp(v/u) <= e*w
                let u = -pos(cs, "eu");
                let v = cs.small("ev");
                let w = (-u) * (v / u).exp() / std::f64::consts::E * (1.0 + pos(cs, "em"));
                vec![u, v, w]
            }
        }
        ConeSpec::Pow(a) => {
            let x = pos(cs, "px");
            let y = pos(cs, "py");
            let bound = if !dual {
                x.powf(*a) * y.powf(1.0 - a)
            } else {
                (x / a).powf(*a) * (y / (1.0 - a)).powf(1.0 - a)
            };
            let frac = [0.0, 0.5, -0.5, 0.9, -0.9][cs.choose("pz", 5) as usize];
            vec![x, y, bound * frac]
        }
        ConeSpec::GenPow(alpha, d2) => {
            let xs: Vec<f64> = alpha.iter().map(|_| pos(cs, "gx")).collect();
            let mut bound = 1.0;
            for (x, a) in xs.iter().zip(alpha) {
                bound *= if !dual { x.powf(*a) } else { (x / a).powf(*a) };
            }
            let dir: Vec<f64> = (0..*d2).map(|_| cs.small("gz")).collect();
            let nrm = dir.iter().map(|x| x * x).sum::<f64>().sqrt().max(1e-300);
            let frac = [0.0, 0.5, 0.9][cs.choose("gf", 3) as usize];
            let mut out = xs;
            out.extend(dir.iter().map(|d| d / nrm * bound * frac));
            out
        }
    }
}

fn gen_cones(cs: &mut ChoiceStream, o: &GenOpts) -> Vec<ConeSpec> {
    let mut cones = vec![];
    let lo = if o.allow_empty { 0 } else { 1 };
    let k = lo + cs.choose("ncones", o.max_cones + 1 - lo);
    for _ in 0..k {
        let ntypes = if o.allow_nonsymmetric { 6 } else { 3 };
        // order: nonneg first (simplest)
        let t = cs.choose("cone", ntypes);
        let md = o.max_cone_dim.max(2);
        let c = match t {
            0 => ConeSpec::Nonneg(1 + cs.choose("dim", md) as usize),
            1 => {
                if o.allow_zero_cone {
                    ConeSpec::Zero(1 + cs.choose("dim", 2) as usize)
                } else {
                    ConeSpec::Nonneg(1 + cs.choose("dim", md) as usize)
                }
            }
            // dimensions on both sides of the sparse-expansion threshold (4)
            2 => {
                if o.allow_soc1 && cs.prob("soc1", 1, 3) {
                    ConeSpec::Soc(1)
                } else {
                    ConeSpec::Soc([2usize, 3, 4, 5, 6, 9][cs.choose("socdim", if md > 4 { 6 } else { 5 }) as usize])
                }
            }
            3 => ConeSpec::Exp,
            4 => ConeSpec::Pow([0.5, 0.25, 0.75, 0.3, 0.9][cs.choose("alpha", 5) as usize]),
            _ => {
                // the last two sum to 0.9999999999999999 in f64: legal (the constructor's
                // allowance is len*eps/2) but not bit-exactly one
                let alpha = match cs.choose("galpha", 5) {
                    0 => vec![0.5, 0.5],
                    1 => vec![0.25, 0.75],
                    2 => vec![0.25, 0.25, 0.5],
                    3 => vec![0.7, 0.2, 0.1],
                    _ => vec![0.4, 0.3, 0.2, 0.1],
                };
                ConeSpec::GenPow(alpha, 1 + cs.choose("gdim2", 2) as usize)
            }
        };
        cones.push(c);
        if o.degenerate && cs.prob("emptycone", 1, 8) {
            cones.push(match cs.choose("emptykind", 3) {
                0 => ConeSpec::Nonneg(0),
                1 => ConeSpec::Zero(0),
                _ => ConeSpec::Soc(0),
            });
        }
    }
    if o.force_nonneg && !cones.iter().any(|c| matches!(c, ConeSpec::Nonneg(_))) {
        cones.insert(0, ConeSpec::Nonneg(2));
    }
    cones
}

pub fn gen_problem(cs: &mut ChoiceStream, o: &GenOpts) -> Prob {
    let mut o = o.clone();
    if !o.degenerate && o.degenerate_chance > 0 && cs.prob("degenerate", o.degenerate_chance, 8) {
        o.degenerate = true;
    }
    let o = &o;
    let n = 1 + cs.choose("n", o.nmax) as usize;
    let mut cones = gen_cones(cs, o);
    let mut m: usize = cones.iter().map(|c| c.dim()).sum();

    // density of A: 0 -> dense (simplest to reason about)
    let dens = [100u32, 60, 30][cs.choose("densA", 3) as usize];
    let scale_pow = cs.choose("scalepow", o.max_scale_pow + 1) as i32;
    let mut dense_a = vec![vec![0.0f64; n]; m];
    let mut mask_a = vec![vec![false; n]; m];
    for i in 0..m {
        for j in 0..n {
            let present = dens == 100 || cs.choose("a?", 100) < dens;
            if present {
                mask_a[i][j] = true;
                dense_a[i][j] = cs.small("a");
            }
        }
    }
    // every row gets at least one entry unless we explicitly want zero rows
    let allow_zero_rows = cs.prob("zerorows", 1, 8);
    if !allow_zero_rows {
        for i in 0..m {
            if !mask_a[i].iter().any(|x| *x) {
                let j = cs.choose("fill", n as u32) as usize;
                mask_a[i][j] = true;
                dense_a[i][j] = cs.small("a");
            }
        }
    }
    if o.degenerate && m > 1 && cs.prob("duprow", 1, 6) {
        // a duplicated (redundant) constraint inside the first scalar cone with >= 2 rows
        let mut row = 0;
        for c in &cones {
            let d = c.dim();
            if d >= 2 && matches!(c, ConeSpec::Zero(_) | ConeSpec::Nonneg(_)) {
                dense_a[row + 1] = dense_a[row].clone();
                mask_a[row + 1] = mask_a[row].clone();
                break;
            }
            row += d;
        }
    }
    if o.degenerate && n > 1 && cs.prob("zerocol", 1, 6) {
        let j = cs.choose("zerocolj", n as u32) as usize;
        for i in 0..m {
            mask_a[i][j] = false;
            dense_a[i][j] = 0.0;
        }
    }
    // row / column scalings (constant over non-scalar cones so that the planted
    // interior slack stays meaningful; the solver must cope either way)
    if scale_pow > 0 {
        let mut row = 0;
        for c in &cones {
            let d = c.dim();
            let scalar = matches!(c, ConeSpec::Zero(_) | ConeSpec::Nonneg(_));
            let mut f = 1.0;
            for k in 0..d {
                if scalar || k == 0 {
                    let e = cs.choose("rs", (2 * scale_pow + 1) as u32) as i32;
                    // 0 -> 10^0
                    let e = if e <= scale_pow { e } else { scale_pow - e };
                    f = 10f64.powi(e);
                }
                for j in 0..n {
                    dense_a[row + k][j] *= f;
                }
            }
            row += d;
        }
    }

    // P = G'G or zero
    let ptype = cs.choose("ptype", 3); // 0: zero (LP), 1: diagonal, 2: G'G
    let mut dense_p = vec![vec![0.0f64; n]; n];
    match ptype {
        0 => {}
        1 => {
            for j in 0..n {
                if cs.choose("pd?", 4) != 1 {
                    dense_p[j][j] = pos(cs, "pd");
                }
            }
        }
        _ => {
            let k = 1 + cs.choose("grows", n as u32) as usize;
            let mut g = vec![vec![0.0f64; n]; k];
            for r in g.iter_mut() {
                for x in r.iter_mut() {
                    if cs.choose("g?", 3) != 1 {
                        *x = cs.small("g");
                    }
                }
            }
            for i in 0..n {
                for j in 0..n {
                    let mut s = 0.0;
                    for r in &g {
                        s += r[i] * r[j];
                    }
                    dense_p[i][j] = s;
                }
            }
        }
    }
    let p_full = Mat::from_dense(n, n, |i, j| {
        if dense_p[i][j] != 0.0 {
            Some(dense_p[i][j])
        } else {
            None
        }
    });
    let p_triu = p_full.triu();
    let p_is_full = cs.flag("pfull");

    // planted point
    let x0: Vec<f64> = (0..n).map(|_| cs.small("x0")).collect();
    let mut s0 = vec![];
    let mut z0 = vec![];
    for c in &cones {
        s0.extend(interior_point(cs, c, false));
        z0.extend(interior_point(cs, c, true));
    }
    let mut b = vec![0.0; m];
    for i in 0..m {
        let mut v = s0[i];
        for j in 0..n {
            if mask_a[i][j] {
                v += dense_a[i][j] * x0[j];
            }
        }
        b[i] = v;
    }
    let mut q = vec![0.0; n];
    for j in 0..n {
        let mut v = 0.0;
        for i in 0..n {
            v -= dense_p[j][i] * x0[i];
        }
        for i in 0..m {
            if mask_a[i][j] {
                v -= dense_a[i][j] * z0[i];
            }
        }
        q[j] = v;
    }

    // variants
    let mut kind = ProbKind::Feasible;
    let mut n_out = n;
    let mut extra_rows: Vec<(Vec<f64>, f64)> = vec![];
    let mut extra_col = false;
    if o.allow_infeasible {
        match cs.choose("variant", 8) {
            6 => {
                // strongly primal infeasible: a'x <= -1 and -a'x <= -1
                kind = ProbKind::PrimalInfeasible;
                let a: Vec<f64> = (0..n).map(|_| cs.small("ia")).collect();
                extra_rows.push((a.clone(), -1.0));
                extra_rows.push((a.iter().map(|v| -v).collect(), -1.0));
            }
            7 => {
                // unbounded: a fresh variable t >= 0 with cost -1
                kind = ProbKind::DualInfeasible;
                extra_col = true;
            }
            _ => {}
        }
    }
    if extra_col {
        n_out = n + 1;
    }
    let m_extra = if extra_col { 1 } else { extra_rows.len() };
    let m_out = m + m_extra;
    let a = Mat::from_dense(m_out, n_out, |i, j| {
        if i < m && j < n {
            if mask_a[i][j] {
                Some(dense_a[i][j])
            } else {
                None
            }
        } else if extra_col {
            if i == m && j == n {
                Some(-1.0)
            } else {
                None
            }
        } else if i >= m && j < n {
            let v = extra_rows[i - m].0[j];
            Some(v)
        } else {
            None
        }
    });
    if extra_col {
        b.push(0.0);
        q.push(-1.0);
        cones.push(ConeSpec::Nonneg(1));
    } else if !extra_rows.is_empty() {
        for (_, rhs) in &extra_rows {
            b.push(*rhs);
        }
        cones.push(ConeSpec::Nonneg(extra_rows.len()));
    }
    m = m_out;
    let p_full = if extra_col {
        Mat::from_dense(n_out, n_out, |i, j| {
            if i < n && j < n && dense_p[i][j] != 0.0 {
                Some(dense_p[i][j])
            } else {
                None
            }
        })
    } else {
        p_full
    };
    let p_triu = if extra_col { p_full.triu() } else { p_triu };
    let planted = if kind == ProbKind::Feasible {
        Some((x0.clone(), s0.clone(), z0.clone()))
    } else {
        None
    };

    Prob {
        n: n_out,
        m,
        p_user: if p_is_full { p_full } else { p_triu.clone() },
        p_triu,
        q,
        a,
        b,
        cones,
        kind,
        planted,
    }
}

#[derive(Clone, Debug)]
pub struct SettingsOpts {
    pub verbose: bool,
    pub max_iter_cap: u32,
}

/// randomised settings (swarm style).  All-zero choices == library defaults
/// except verbose/max_iter which the caller controls.
pub fn gen_settings(cs: &mut ChoiceStream, verbose: bool) -> DefaultSettings<f64> {
    let mut s = DefaultSettings::<f64>::default();
    s.verbose = verbose;
    s.max_iter = 60;
    if cs.prob("s.equil", 1, 3) {
        s.equilibrate_enable = false;
    }
    if cs.prob("s.presolve", 1, 3) {
        s.presolve_enable = false;
    }
    if cs.prob("s.sreg", 1, 6) {
        s.static_regularization_enable = false;
    }
    if cs.prob("s.dreg", 1, 6) {
        s.dynamic_regularization_enable = false;
    }
    match cs.choose("s.dregv", 6) {
        1 => {
            s.dynamic_regularization_eps = 1e-10;
            s.dynamic_regularization_delta = 1e-5;
        }
        2 => {
            s.dynamic_regularization_eps = 1e-7;
            s.dynamic_regularization_delta = 1e-4;
        }
        _ => {}
    }
    if cs.prob("s.ir", 1, 6) {
        s.iterative_refinement_enable = false;
    }
    match cs.choose("s.tol", 4) {
        1 => {
            s.tol_gap_abs = 1e-6;
            s.tol_gap_rel = 1e-6;
            s.tol_feas = 1e-6;
        }
        2 => {
            s.tol_gap_abs = 1e-10;
            s.tol_gap_rel = 1e-10;
            s.tol_feas = 1e-10;
        }
        _ => {}
    }
    match cs.choose("s.msf", 4) {
        1 => s.max_step_fraction = 0.9,
        2 => s.max_step_fraction = 0.5,
        _ => {}
    }
    if cs.prob("s.qdldl", 1, 3) {
        s.direct_solve_method = "qdldl".to_string();
    }
    // the reduced ("almost") tolerances, independently of each other
    match cs.choose("s.rtol", 6) {
        1 => {
            s.reduced_tol_gap_abs = 1e-3;
            s.reduced_tol_gap_rel = 1e-7;
        }
        2 => {
            s.reduced_tol_gap_abs = 1e-7;
            s.reduced_tol_gap_rel = 1e-3;
        }
        3 => s.reduced_tol_feas = 1e-2,
        4 => s.reduced_tol_feas = 1e-6,
        _ => {}
    }
    match cs.choose("s.misc", 8) {
        1 => s.tol_gap_abs = 1e-3,
        2 => s.tol_gap_rel = 1e-3,
        3 => s.tol_infeas_rel = 1e-5,
        4 => s.min_terminate_step_length = 1e-2,
        5 => s.linesearch_backtrack_step = 0.5,
        6 => s.static_regularization_constant = 1e-6,
        _ => {}
    }
    match cs.choose("s.eqit", 4) {
        1 => s.equilibrate_max_iter = 1,
        2 => s.equilibrate_max_iter = 3,
        _ => {}
    }
    // the remaining values shown in the settings header (all legal)
    match cs.choose("s.misc2", 10) {
        1 => s.iterative_refinement_max_iter = 3,
        2 => s.iterative_refinement_max_iter = 25,
        3 => s.iterative_refinement_stop_ratio = 2.0,
        4 => {
            s.iterative_refinement_reltol = 1e-10;
            s.iterative_refinement_abstol = 1e-14;
        }
        5 => {
            s.equilibrate_min_scaling = 1e-2;
            s.equilibrate_max_scaling = 1e2;
        }
        6 => s.static_regularization_proportional = 1e-20,
        _ => {}
    }
    s
}

pub fn describe_settings(s: &DefaultSettings<f64>) -> String {
    format!(
        "verbose={} max_iter={} time_limit={:e} equil={} presolve={} sreg={} dreg={} ir={} tol={:e} msf={} method={} eqit={}",
        s.verbose,
        s.max_iter,
        s.time_limit,
        s.equilibrate_enable,
        s.presolve_enable,
        s.static_regularization_enable,
        s.dynamic_regularization_enable,
        s.iterative_refinement_enable,
        s.tol_feas,
        s.max_step_fraction,
        s.direct_solve_method,
        s.equilibrate_max_iter
    )
}
