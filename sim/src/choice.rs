//! The single choice stream: every decision of a run goes through `choose`.
//!
//! search mode : xoshiro256** seeded from (VERIF_SEED, property, run index)
//! replay mode : a recorded list; exhausted / out-of-range => 0 (the simplest choice)

#[derive(Clone, Debug)]
pub struct Xoshiro {
    s: [u64; 4],
}

pub fn splitmix(x: &mut u64) -> u64 {
    *x = x.wrapping_add(0x9E3779B97F4A7C15);
    let mut z = *x;
    z = (z ^ (z >> 30)).wrapping_mul(0xBF58476D1CE4E5B9);
    z = (z ^ (z >> 27)).wrapping_mul(0x94D049BB133111EB);
    z ^ (z >> 31)
}

/// stateless mixing function used for clock jitter etc.
pub fn mix(a: u64, b: u64) -> u64 {
    let mut x = a ^ b.wrapping_mul(0x9E3779B97F4A7C15).rotate_left(17);
    splitmix(&mut x)
}

impl Xoshiro {
    pub fn new(seed: u64) -> Self {
        let mut x = seed;
        let s = [
            splitmix(&mut x),
            splitmix(&mut x),
            splitmix(&mut x),
            splitmix(&mut x),
        ];
        Xoshiro { s }
    }
    pub fn next(&mut self) -> u64 {
        let result = self.s[1].wrapping_mul(5).rotate_left(7).wrapping_mul(9);
        let t = self.s[1] << 17;
        self.s[2] ^= self.s[0];
        self.s[3] ^= self.s[1];
        self.s[1] ^= self.s[2];
        self.s[0] ^= self.s[3];
        self.s[2] ^= t;
        self.s[3] = self.s[3].rotate_left(45);
        result
    }
}

#[derive(Clone, Debug, PartialEq)]
pub struct Choice {
    pub tag: String,
    pub n: u32,
    pub v: u32,
}

enum Mode {
    Search(Xoshiro),
    Replay { list: Vec<Choice>, pos: usize },
}

pub struct ChoiceStream {
    mode: Mode,
    pub record: Vec<Choice>,
}

impl ChoiceStream {
    pub fn search(seed: u64) -> Self {
        ChoiceStream {
            mode: Mode::Search(Xoshiro::new(seed)),
            record: Vec::new(),
        }
    }
    pub fn replay(list: Vec<Choice>) -> Self {
        ChoiceStream {
            mode: Mode::Replay { list, pos: 0 },
            record: Vec::new(),
        }
    }

    /// a value in 0..n (n >= 1).  0 is always the simplest choice.
    pub fn choose(&mut self, tag: &str, n: u32) -> u32 {
        let n = n.max(1);
        let v = match &mut self.mode {
            Mode::Search(rng) => {
                if n == 1 {
                    0
                } else {
                    (rng.next() % n as u64) as u32
                }
            }
            Mode::Replay { list, pos } => {
                // replay is positional; tags are for the human reader and
                // as a sanity anchor: on a tag mismatch we still consume,
                // which keeps shrinking (which deletes choices) well-defined.
                let v = if *pos < list.len() {
                    let c = &list[*pos];
                    if c.v < n {
                        c.v
                    } else {
                        0
                    }
                } else {
                    0
                };
                *pos += 1;
                v
            }
        };
        self.record.push(Choice {
            tag: tag.to_string(),
            n,
            v,
        });
        v
    }

    pub fn flag(&mut self, tag: &str) -> bool {
        self.choose(tag, 2) == 1
    }

    /// true with probability about num/den; 0 (= false) is the simple choice
    pub fn prob(&mut self, tag: &str, num: u32, den: u32) -> bool {
        let v = self.choose(tag, den);
        // v == 0 is false unless num >= den
        v + num.min(den) >= den
    }

    /// a float in [0,1) on a 2^20 grid; 0.0 is the simple choice
    pub fn unit(&mut self, tag: &str) -> f64 {
        self.choose(tag, 1 << 20) as f64 / (1u64 << 20) as f64
    }

    /// small signed "nice" number: value in {-k..k} / scale
    pub fn small(&mut self, tag: &str) -> f64 {
        // 0 -> 1.0 (simplest nonzero), then a spread of magnitudes and signs
        const TABLE: [f64; 16] = [
            1.0, -1.0, 2.0, -2.0, 0.5, -0.5, 3.0, -3.0, 0.25, -0.75, 1.5, -1.5, 5.0, -4.0, 0.1,
            -0.3,
        ];
        let v = self.choose(tag, 64);
        if (v as usize) < TABLE.len() {
            TABLE[v as usize]
        } else {
            // generic: mantissa in [-2,2), on a grid
            let u = self.choose(tag, 4001) as f64;
            (u - 2000.0) / 1000.0
        }
    }
}
